#!/usr/bin/env python3
"""Confirm a seeded change produced by a sub-agent and run the checks against it.

  ./seedtest.py import <id> <worktree> <PROP>     copy patch/demo/notes from the agent's worktree into /verif/seeded/<id>/
  ./seedtest.py confirm <id>                       in a fresh scratch worktree: suite passes with the patch, demo fails with it and passes without
  ./seedtest.py run <id> [CHECK ...]               git apply the patch to /repo, run the checks (default: the property's), always undo
"""
import glob, json, os, shutil, subprocess, sys, tempfile, time
ROOT = os.path.dirname(os.path.abspath(__file__))
ENV = dict(os.environ, GOFLAGS="-mod=mod", GOPROXY="off", GOSUMDB="off", GOTOOLCHAIN="local")

def sh(cmd, cwd=None, timeout=1800, netns=False):
    if netns and isinstance(cmd, str):
        # the repository's root test package binds the fixed port 127.0.0.1:9999: run in a private
        # network namespace so that parallel runs (sub-agents, other confirmations) cannot collide
        cmd = "unshare -n sh -c 'ip link set lo up && %s'" % cmd.replace("'", "'\\''")
    r = subprocess.run(cmd, cwd=cwd, env=ENV, shell=isinstance(cmd, str), capture_output=True, text=True, timeout=timeout)
    return r.returncode, r.stdout + r.stderr

def seeded(i): return os.path.join(ROOT, "seeded", i)

def cmd_import(i, wt, prop):
    d = seeded(i); os.makedirs(d, exist_ok=True)
    rc, diff = sh("git diff", cwd=wt)
    open(os.path.join(d, "patch.diff"), "w").write(diff)
    demos = [f for f in subprocess.check_output("git ls-files --others --exclude-standard", cwd=wt, shell=True, text=True).split() if f.endswith("_test.go")]
    for f in demos:
        dst = os.path.join(d, "demo", f); os.makedirs(os.path.dirname(dst), exist_ok=True); shutil.copyfile(os.path.join(wt, f), dst)
    if os.path.exists(os.path.join(wt, "SEEDED.md")):
        shutil.copyfile(os.path.join(wt, "SEEDED.md"), os.path.join(d, "SEEDED.md"))
    meta = {"id": i, "property": prop, "demo_files": demos, "source": "sub-agent that saw only the property text, own worktree"}
    json.dump(meta, open(os.path.join(d, "meta.json"), "w"), indent=1)
    print("imported", i, "patch lines:", len(diff.splitlines()), "demo:", demos)

def cmd_confirm(i):
    d = seeded(i); meta = json.load(open(os.path.join(d, "meta.json")))
    wt = tempfile.mkdtemp(prefix="seedconfirm-", dir="/tmp"); os.rmdir(wt)
    sh(["git", "-C", "/repo", "worktree", "add", "-q", "--detach", wt, "HEAD"])
    out = {}
    try:
        rc, o = sh(["git", "apply", os.path.join(d, "patch.diff")], cwd=wt); assert rc == 0, o
        rc, o = sh("go build ./...", cwd=wt); out["build_with_patch"] = rc == 0
        rc, o = sh("go test -vet=off -count=1 ./...", cwd=wt, netns=True); out["suite_passes_with_patch"] = rc == 0
        if rc != 0: out["suite_output"] = o[-1500:]
        for f in meta["demo_files"]:
            dst = os.path.join(wt, f); os.makedirs(os.path.dirname(dst), exist_ok=True); shutil.copyfile(os.path.join(d, "demo", f), dst)
        pkgs = sorted(set("./" + os.path.dirname(f) for f in meta["demo_files"]))
        fails = 0
        for k in range(3):
            rc, o = sh("go test -vet=off -count=1 -run TestDemo " + " ".join(pkgs), cwd=wt, timeout=600, netns=True)
            fails += rc != 0
        out["demo_fails_with_patch"] = "%d/3" % fails
        sh("git checkout -- .", cwd=wt)
        passes = 0
        for k in range(3):
            rc, o = sh("go test -vet=off -count=1 -run TestDemo " + " ".join(pkgs), cwd=wt, timeout=600, netns=True)
            passes += rc == 0
        out["demo_passes_without_patch"] = "%d/3" % passes
        if passes < 3: out["demo_output_without_patch"] = o[-1500:]
    finally:
        sh(["git", "-C", "/repo", "worktree", "remove", "--force", wt])
    meta["confirmed"] = out; meta["confirmed_at_repo_commit"] = subprocess.check_output("git -C /repo rev-parse --short HEAD", shell=True, text=True).strip()
    json.dump(meta, open(os.path.join(d, "meta.json"), "w"), indent=1)
    print(json.dumps(out, indent=1))

def cmd_run(i, checks, overlay=False):
    """overlay=True leaves /repo untouched (the patched files are compiled in through go's -overlay): for use
    while other runs are building from /repo."""
    d = seeded(i); meta = json.load(open(os.path.join(d, "meta.json")))
    if not checks: checks = meta.get("checks") or [meta["property"]]
    ovdir = None
    if overlay:
        import re
        ovdir = tempfile.mkdtemp(prefix="seedov-")
        patch = open(os.path.join(d, "patch.diff")).read()
        files = sorted(set(re.findall(r"^\+\+\+ b/(\S+)", patch, re.M)))
        repl = {}
        for f in files:
            dst = os.path.join(ovdir, f); os.makedirs(os.path.dirname(dst), exist_ok=True)
            if os.path.exists(os.path.join("/repo", f)): shutil.copy(os.path.join("/repo", f), dst)
            repl[os.path.join("/repo", f)] = dst
        r = subprocess.run(["patch", "-p1", "-s", "-d", ovdir, "-i", os.path.join(d, "patch.diff")], capture_output=True, text=True)
        assert r.returncode == 0, r.stdout + r.stderr
        json.dump({"Replace": repl}, open(os.path.join(ovdir, "overlay.json"), "w"))
    else:
        rc, o = sh("git status --porcelain", cwd="/repo"); assert o.strip() == "", "/repo is dirty: " + o
        rc, o = sh(["git", "apply", os.path.join(d, "patch.diff")], cwd="/repo"); assert rc == 0, o
    results = meta.setdefault("check_results", {})
    try:
        for c in checks:
            t0 = time.time()
            env = dict(ENV, VERIF_EVIDENCE_DIR=tempfile.mkdtemp(prefix="seedev-"), VERIF_REPLAY_DIR=os.path.join(d, "replay"))
            if ovdir: env["VERIF_EXTRA_OVERLAY"] = os.path.join(ovdir, "overlay.json")
            r = subprocess.run([os.path.join(ROOT, "check"), c, "quick"], env=env, capture_output=True, text=True, timeout=3600)
            viol = [l for l in r.stdout.splitlines() if l.startswith("VIOLATION")]
            first = [l for l in r.stderr.splitlines() if l.strip()][:2]
            results[c] = {"exit": r.returncode, "violations": viol[:3], "first_message": first, "wall_s": round(time.time() - t0, 1)}
            print(c, "exit", r.returncode, viol[:1], first[:1])
            shutil.rmtree(env["VERIF_EVIDENCE_DIR"], ignore_errors=True)
    finally:
        if ovdir:
            shutil.rmtree(ovdir, ignore_errors=True)
        else:
            sh("git checkout -- .", cwd="/repo")
            rc, o = sh("git status --porcelain", cwd="/repo"); assert o.strip() == "", o
    json.dump(meta, open(os.path.join(d, "meta.json"), "w"), indent=1)

if __name__ == "__main__":
    a = sys.argv
    if a[1] == "import": cmd_import(a[2], a[3], a[4])
    elif a[1] == "confirm": cmd_confirm(a[2])
    elif a[1] == "run": cmd_run(a[2], a[3:])
    elif a[1] == "orun": cmd_run(a[2], a[3:], overlay=True)
