#!/usr/bin/env python3
"""Sensitivity helper: run a check against a mutated copy of one or more /repo files via a build overlay.

  ./mutant.py <ID> <tier> <file> <old-text> <new-text> [<file> <old> <new> ...]

/repo is never touched. Exit code and output are those of ./check.
"""
import json, os, subprocess, sys, tempfile, shutil
ROOT = os.path.dirname(os.path.abspath(__file__))
def main():
    pid, tier = sys.argv[1], sys.argv[2]
    rest = sys.argv[3:]
    tmp = tempfile.mkdtemp(prefix="verif-mutant-")
    try:
        repl = {}
        for i in range(0, len(rest), 3):
            f, old, new = rest[i], rest[i+1], rest[i+2]
            src = os.path.join("/repo", f)
            base = repl.get(src, src)
            s = open(base).read()
            if s.count(old) < 1:
                print("MUTANT-ERROR: old text not found in", f); return 3
            s = s.replace(old, new, 1)
            dst = os.path.join(tmp, f.replace("/", "__"))
            open(dst, "w").write(s)
            repl[src] = dst
        ov = os.path.join(tmp, "overlay.json")
        json.dump({"Replace": repl}, open(ov, "w"))
        env = dict(os.environ); env["VERIF_EXTRA_OVERLAY"] = ov
        env["VERIF_EVIDENCE_DIR"] = os.path.join(tmp, "evidence")
        env["VERIF_REPLAY_DIR"] = os.environ.get("VERIF_MUTANT_REPLAY_DIR", os.path.join(tmp, "replay"))
        return subprocess.call([os.path.join(ROOT, "check"), pid, tier], env=env)
    finally:
        shutil.rmtree(tmp, ignore_errors=True)
sys.exit(main())
