#!/bin/sh
# MANIFEST.setup_cmd: offline; warms the Go build cache by compiling every check's test binary once.
set -e
cd "$(dirname "$0")/harness"
export GOFLAGS=-mod=mod GOPROXY=off GOSUMDB=off GOTOOLCHAIN=local
T=$(mktemp -d)
trap 'rm -rf "$T"' EXIT
for d in c[0-9][0-9]; do
  [ -d "$d" ] || continue
  go test -c -vet=off -o "$T/$d.test" "./$d" || { echo "setup: build of $d failed" >&2; exit 1; }
done
echo "setup ok"
