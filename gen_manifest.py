#!/usr/bin/env python3
"""Writes MANIFEST.json from manifest_src.json (checks built so far) and properties.jsonl."""
import json, os
ROOT = os.path.dirname(os.path.abspath(__file__))
src = json.load(open(os.path.join(ROOT, "manifest_src.json")))
props = [json.loads(l) for l in open(os.path.join(ROOT, "properties.jsonl")) if l.strip()]
checks = []
na = []
for p in props:
    pid = p["id"]
    c = src["checks"].get(pid)
    if c is None:
        na.append({"property_id": pid, "reason": src["not_applicable"].get(pid, "check not built yet in this session (planned, see DESIGN.md section 3)")})
        continue
    checks.append({
        "property_id": pid,
        "quick_cmd": "./check %s quick" % pid,
        "thorough_cmd": "./check %s thorough" % pid,
        "evidence_file": "/verif/evidence/%s.json" % pid,
        "replay_cmd_template": "./check %s --replay {path}" % pid,
        "engine": c.get("engine", "harness"),
        "level_claimed": {"category": "exploration", "text": c["level_text"], "design_ref": c.get("design_ref", "DESIGN.md section 3, " + pid)},
        "level_note": c["level_note"],
        "technique": c["technique"],
    })
m = {
    "version": 1,
    "setup_cmd": "./setup.sh",
    "hooks": src["hooks"],
    "engines": src["engines"],
    "checks": checks,
    "notes": src["notes"],
    "not_applicable": na,
}
json.dump(m, open(os.path.join(ROOT, "MANIFEST.json"), "w"), indent=1)
print("MANIFEST.json: %d checks, %d not_applicable" % (len(checks), len(na)))
