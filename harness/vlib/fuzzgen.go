package vlib

import (
	"fmt"
	"os"
	"path/filepath"
	"sync/atomic"
	"testing"

	"pgregory.net/rapid"
)

// FuzzGenerated drives a check's generator from the native fuzzer's byte input (rapid.MakeFuzz): the bytes
// are the generator's random choices, so the fuzzer mutates generator decisions under coverage guidance and
// every input stays inside the generator's (sound) domain. The oracle is the check's own; a failure is saved
// in the harness's replay format (the driver reports it as a violation).
func FuzzGenerated[C any](f *testing.F, id, check string, gen func(*rapid.T) C, run func(C) Result) {
	f.Add([]byte{})
	seed := make([]byte, 0, 4096)
	x := uint32(2463534242)
	for i := 0; i < 4096; i++ {
		x ^= x << 13
		x ^= x >> 17
		x ^= x << 5
		seed = append(seed, byte(x))
		if i == 63 || i == 511 || i == 4095 {
			f.Add(append([]byte(nil), seed...))
		}
	}
	var complete atomic.Int64
	f.Fuzz(rapid.MakeFuzz(func(t *rapid.T) {
		c := gen(t)
		// inputs that run out of bytes inside the generator never get here: count the cases that reach the oracle
		if n := complete.Add(1); n%256 == 0 {
			if out := os.Getenv("VERIF_OUT"); out != "" {
				_ = os.WriteFile(filepath.Join(out, fmt.Sprintf("fuzzcount-%d", os.Getpid())), []byte(fmt.Sprint(n)), 0o644)
			}
		}
		res := run(c)
		if res.Err != nil && !IsHarnessErr(res) {
			p := FuzzFail(id, check, c, res.Err.Error())
			t.Fatalf("%v (replay %s)", res.Err, p)
		}
	}))
}
