package vlib

import (
	"errors"
	"net"
	"sync"
	"time"
)

// FakeConn is an in-memory net.Conn that records everything written to it.
type FakeConn struct {
	mu        sync.Mutex
	Writes    [][]byte
	Closed    bool
	CloseN    int
	FailAt    int // 1-based index of the Write call that fails (0 = never)
	ShortAt   int // 1-based index of the Write call that is short by one byte with an error
	nwrites   int
	ReadDL    []time.Time
	WriteDL   []time.Time
	OnWriteFn func(b []byte)
	// BlockAt: 1-based index of the Write call that blocks until Gate is closed (0 = never); Blocked is
	// closed when that call has started to block, Returned when it has returned. All three are created by
	// ArmBlock.
	BlockAt  int
	Gate     chan struct{}
	Blocked  chan struct{}
	Returned chan struct{}
}

// ArmBlock makes the k-th Write call block until Gate is closed.
func (c *FakeConn) ArmBlock(k int) {
	c.BlockAt, c.Gate, c.Blocked, c.Returned = k, make(chan struct{}), make(chan struct{}), make(chan struct{})
}

type fakeAddr string

func (a fakeAddr) Network() string { return "fake" }
func (a fakeAddr) String() string  { return string(a) }

var ErrInjected = errors.New("injected write error")

func (c *FakeConn) Read(b []byte) (int, error) { return 0, errors.New("fakeconn: read not supported") }
func (c *FakeConn) Write(b []byte) (int, error) {
	c.mu.Lock()
	defer c.mu.Unlock()
	if c.Closed {
		return 0, net.ErrClosed
	}
	c.nwrites++
	if c.BlockAt > 0 && c.nwrites == c.BlockAt {
		// a peer that does not take the data: the call hangs until the harness lets it go
		c.mu.Unlock()
		close(c.Blocked)
		<-c.Gate
		c.mu.Lock()
		defer close(c.Returned)
		if c.Closed {
			return 0, net.ErrClosed
		}
	}
	if c.FailAt > 0 && c.nwrites >= c.FailAt {
		return 0, ErrInjected
	}
	cp := append([]byte(nil), b...)
	c.Writes = append(c.Writes, cp)
	if c.OnWriteFn != nil {
		c.OnWriteFn(cp)
	}
	return len(b), nil
}
func (c *FakeConn) Close() error {
	c.mu.Lock()
	c.Closed = true
	c.CloseN++
	c.mu.Unlock()
	return nil
}
func (c *FakeConn) IsClosed() bool       { c.mu.Lock(); defer c.mu.Unlock(); return c.Closed }
func (c *FakeConn) LocalAddr() net.Addr  { return fakeAddr("local:1") }
func (c *FakeConn) RemoteAddr() net.Addr { return fakeAddr("remote:2") }
func (c *FakeConn) SetDeadline(t time.Time) error {
	c.mu.Lock()
	c.ReadDL = append(c.ReadDL, t)
	c.WriteDL = append(c.WriteDL, t)
	c.mu.Unlock()
	return nil
}
func (c *FakeConn) SetReadDeadline(t time.Time) error {
	c.mu.Lock()
	c.ReadDL = append(c.ReadDL, t)
	c.mu.Unlock()
	return nil
}
func (c *FakeConn) SetWriteDeadline(t time.Time) error {
	c.mu.Lock()
	c.WriteDL = append(c.WriteDL, t)
	c.mu.Unlock()
	return nil
}

// Bytes returns the concatenation of all writes.
func (c *FakeConn) Bytes() []byte {
	c.mu.Lock()
	defer c.mu.Unlock()
	var out []byte
	for _, w := range c.Writes {
		out = append(out, w...)
	}
	return out
}

// Reset forgets the recorded writes.
func (c *FakeConn) Reset() {
	c.mu.Lock()
	c.Writes = nil
	c.mu.Unlock()
}
