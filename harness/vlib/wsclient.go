package vlib

import (
	"bufio"
	"bytes"
	"fmt"
	"net"
	"net/http"
	"time"
)

// WSClient is a minimal reference WebSocket client over any net.Conn (masking, raw frame access).
type WSClient struct {
	Conn net.Conn
	br   *bufio.Reader
	key  uint32
	// Compression is true when the server accepted permessage-deflate.
	Compression bool
}

// WSHandshake performs the opening handshake on an established connection.
func WSHandshake(conn net.Conn, path string, offerCompression bool) (*WSClient, error) {
	req := "GET " + path + " HTTP/1.1\r\nHost: verif.local\r\nUpgrade: websocket\r\nConnection: Upgrade\r\n" +
		"Sec-WebSocket-Key: dGhlIHNhbXBsZSBub25jZQ==\r\nSec-WebSocket-Version: 13\r\n"
	if offerCompression {
		req += "Sec-WebSocket-Extensions: permessage-deflate; server_no_context_takeover; client_no_context_takeover\r\n"
	}
	req += "\r\n"
	_ = conn.SetDeadline(time.Now().Add(5 * time.Second))
	if _, err := conn.Write([]byte(req)); err != nil {
		return nil, err
	}
	br := bufio.NewReaderSize(conn, 1<<16)
	resp, err := http.ReadResponse(br, &http.Request{Method: "GET"})
	if err != nil {
		return nil, fmt.Errorf("handshake response: %v", err)
	}
	if resp.StatusCode != 101 {
		return nil, fmt.Errorf("handshake status %d", resp.StatusCode)
	}
	_ = conn.SetDeadline(time.Time{})
	c := &WSClient{Conn: conn, br: br, key: 0x9e3779b9}
	c.Compression = bytes.Contains([]byte(resp.Header.Get("Sec-Websocket-Extensions")), []byte("permessage-deflate"))
	return c, nil
}

// WriteFrame sends one masked frame.
func (c *WSClient) WriteFrame(f WSFrame) error {
	f.Masked = true
	c.key = c.key*1664525 + 1013904223
	f.Key = c.key
	_, err := c.Conn.Write(f.Encode())
	return err
}

// WriteMessage sends a complete unfragmented data or control message.
func (c *WSClient) WriteMessage(op int, payload []byte) error {
	return c.WriteFrame(WSFrame{Fin: true, Op: op, Payload: payload})
}

// ReadFrame reads the next frame from the server (blocking, honours the conn's read deadline).
func (c *WSClient) ReadFrame() (WSFrame, error) {
	var f WSFrame
	h := make([]byte, 2)
	if _, err := readFull(c.br, h); err != nil {
		return f, err
	}
	f.Fin, f.R1, f.R2, f.R3, f.Op = h[0]&0x80 != 0, h[0]&0x40 != 0, h[0]&0x20 != 0, h[0]&0x10 != 0, int(h[0]&0xF)
	f.Masked = h[1]&0x80 != 0
	n := uint64(h[1] & 0x7F)
	switch n {
	case 126:
		b := make([]byte, 2)
		if _, err := readFull(c.br, b); err != nil {
			return f, err
		}
		n = uint64(b[0])<<8 | uint64(b[1])
	case 127:
		b := make([]byte, 8)
		if _, err := readFull(c.br, b); err != nil {
			return f, err
		}
		n = 0
		for _, x := range b {
			n = n<<8 | uint64(x)
		}
	}
	var key [4]byte
	if f.Masked {
		if _, err := readFull(c.br, key[:]); err != nil {
			return f, err
		}
	}
	if n > 1<<28 {
		return f, fmt.Errorf("frame of %d bytes", n)
	}
	f.Payload = make([]byte, n)
	if _, err := readFull(c.br, f.Payload); err != nil {
		return f, err
	}
	if f.Masked {
		for i := range f.Payload {
			f.Payload[i] ^= key[i&3]
		}
	}
	return f, nil
}

func readFull(br *bufio.Reader, b []byte) (int, error) {
	n := 0
	for n < len(b) {
		k, err := br.Read(b[n:])
		n += k
		if err != nil {
			return n, err
		}
	}
	return n, nil
}
