// Package vlib is the shared runtime of the /verif harness: it runs rapid-generated cases through
// an explicit check function, records what was explored (evidence), turns shrunk failures into
// plain JSON replay files and replays committed regression cases without rapid.
package vlib

import (
	"crypto/sha256"
	"encoding/binary"
	"encoding/hex"
	"encoding/json"
	"flag"
	"fmt"
	"os"
	"path/filepath"
	"runtime"
	"sort"
	"strconv"
	"strings"
	"sync"
	"testing"
	"time"

	"pgregory.net/rapid"
)

// Result is what a check function reports for one case.
type Result struct {
	Err        error    // non-nil: the oracle failed on this case (a violation)
	NonTrivial bool     // the case satisfies the property's stated non-triviality rule
	Classes    []string // generator classes hit by this case (for the measured distribution)
	Excluded   string   // non-empty: case was not asserted because of this known-finding key
	Known      string   // non-empty with Err: the failure matches this listed known-finding key
}

func Fail(format string, args ...any) Result { return Result{Err: fmt.Errorf(format, args...)} }

// Runner collects evidence for one property in one process (one shard).
type Runner struct {
	T        *testing.T
	ID       string
	Tier     string
	Seed     uint64
	Shard    int
	NShards  int
	OutDir   string
	Root     string // /verif
	Deadline time.Time

	mu           sync.Mutex
	evals        int64
	shrinkEvals  int64
	hashes       map[uint64]struct{}
	classes      map[string]int64
	excluded     map[string]int64
	samples      []json.RawMessage
	sampleSeen   int64
	violations   []Violation
	knownSeen    map[string]string
	perCheck     map[string]*checkStat
	notes        []string
	harnessSkips int64
	budgetHit    bool
	exhaustive   map[string]bool

	replayers map[string]func(json.RawMessage) Result
	known     map[string]string // key -> text (from known_findings.txt, this property)
}

type checkStat struct {
	Evals      int64 `json:"evaluations"`
	NonTrivial int64 `json:"nontrivial"`
	Requested  int   `json:"requested"`
	Passed     int   `json:"rapid_passed,omitempty"`
}

type Violation struct {
	Check  string `json:"check"`
	Replay string `json:"replay"`
	Error  string `json:"error"`
}

// ReplayFile is the on-disk form of a case.
type ReplayFile struct {
	Property string          `json:"property"`
	Check    string          `json:"check"`
	Error    string          `json:"error,omitempty"`
	Note     string          `json:"note,omitempty"`
	Case     json.RawMessage `json:"case"`
}

func envInt(k string, d int) int {
	if v := os.Getenv(k); v != "" {
		if n, err := strconv.Atoi(v); err == nil {
			return n
		}
	}
	return d
}

// NewRunner builds the runner from the environment set by /verif/check.
func NewRunner(t *testing.T, id string) *Runner {
	r := &Runner{T: t, ID: id}
	r.Tier = os.Getenv("VERIF_TIER")
	if r.Tier == "" {
		r.Tier = "quick"
	}
	seed := envInt("VERIF_SEED", 1)
	if seed <= 0 {
		seed = -seed + 1
	}
	r.Seed = uint64(seed)
	r.Shard = envInt("VERIF_SHARD", 0)
	r.NShards = envInt("VERIF_NSHARDS", 1)
	r.OutDir = os.Getenv("VERIF_OUT")
	if r.OutDir == "" {
		r.OutDir = t.TempDir()
	}
	r.Root = os.Getenv("VERIF_ROOT")
	if r.Root == "" {
		r.Root = "/verif"
	}
	budget := envInt("VERIF_BUDGET_S", 0)
	if budget > 0 {
		r.Deadline = time.Now().Add(time.Duration(budget) * time.Second)
	}
	r.hashes = map[uint64]struct{}{}
	r.classes = map[string]int64{}
	r.excluded = map[string]int64{}
	r.knownSeen = map[string]string{}
	r.perCheck = map[string]*checkStat{}
	r.replayers = map[string]func(json.RawMessage) Result{}
	r.exhaustive = map[string]bool{}
	r.known = loadKnown(filepath.Join(r.Root, "known_findings.txt"), id)
	return r
}

func loadKnown(path, id string) map[string]string {
	out := map[string]string{}
	b, err := os.ReadFile(path)
	if err != nil {
		return out
	}
	for _, line := range strings.Split(string(b), "\n") {
		line = strings.TrimSpace(line)
		if !strings.HasPrefix(line, "finding:") {
			continue
		}
		rest := strings.TrimSpace(strings.TrimPrefix(line, "finding:"))
		f := strings.Fields(rest)
		if len(f) < 2 || f[0] != "property="+id || !strings.HasPrefix(f[1], "key=") {
			continue
		}
		key := strings.TrimPrefix(f[1], "key=")
		out[key] = strings.TrimSpace(strings.Join(f[2:], " "))
	}
	return out
}

// KnownFinding reports whether key is listed as a known finding for this property.
func (r *Runner) KnownFinding(key string) bool { _, ok := r.known[key]; return ok }

// Quick reports whether the tier is quick.
func (r *Runner) Quick() bool { return r.Tier != "thorough" }

// Pick returns q in the quick tier and th in the thorough tier, divided over the shards.
func (r *Runner) Pick(q, th int) int {
	n := q
	if !r.Quick() {
		n = th
	}
	n = (n + r.NShards - 1) / r.NShards
	if n < 1 {
		n = 1
	}
	return n
}

func (r *Runner) Note(format string, args ...any) {
	r.mu.Lock()
	r.notes = append(r.notes, fmt.Sprintf(format, args...))
	r.mu.Unlock()
}

func (r *Runner) OutOfBudget() bool {
	if r.Deadline.IsZero() {
		return false
	}
	if time.Now().After(r.Deadline) {
		r.mu.Lock()
		r.budgetHit = true
		r.mu.Unlock()
		return true
	}
	return false
}

func hashCase(check string, raw []byte) uint64 {
	h := sha256.New()
	h.Write([]byte(check))
	h.Write([]byte{0})
	h.Write(raw)
	return binary.LittleEndian.Uint64(h.Sum(nil)[:8])
}

// record accounts one executed case.
func (r *Runner) record(check string, raw []byte, res Result, shrinking bool) {
	r.mu.Lock()
	defer r.mu.Unlock()
	st := r.perCheck[check]
	if st == nil {
		st = &checkStat{}
		r.perCheck[check] = st
	}
	if shrinking {
		r.shrinkEvals++
		return
	}
	r.evals++
	st.Evals++
	for _, c := range res.Classes {
		r.classes[c]++
	}
	if res.Excluded != "" {
		r.excluded[res.Excluded]++
	}
	if res.NonTrivial {
		st.NonTrivial++
		h := hashCase(check, raw)
		if _, ok := r.hashes[h]; !ok {
			r.hashes[h] = struct{}{}
			// reservoir-ish: keep the first 3 and then every 2^k-th distinct non-trivial case, max 8
			r.sampleSeen++
			n := r.sampleSeen
			if len(raw) <= 6000 && (n <= 3 || (n&(n-1)) == 0) && len(r.samples) < 10 {
				s, _ := json.Marshal(map[string]any{"check": check, "case": json.RawMessage(raw)})
				r.samples = append(r.samples, s)
			}
		}
	}
}

type capTB struct {
	name   string
	mu     sync.Mutex
	failed bool
	msgs   []string
	logs   []string
}

func (c *capTB) Helper()      {}
func (c *capTB) Name() string { return c.name }
func (c *capTB) Logf(format string, args ...any) {
	c.mu.Lock()
	c.logs = append(c.logs, fmt.Sprintf(format, args...))
	c.mu.Unlock()
}
func (c *capTB) Log(args ...any)                   { c.Logf("%s", fmt.Sprint(args...)) }
func (c *capTB) Skipf(format string, args ...any)  { c.SkipNow() }
func (c *capTB) Skip(args ...any)                  { c.SkipNow() }
func (c *capTB) SkipNow()                          { runtime.Goexit() }
func (c *capTB) Errorf(format string, args ...any) { c.fail(fmt.Sprintf(format, args...)) }
func (c *capTB) Error(args ...any)                 { c.fail(fmt.Sprint(args...)) }
func (c *capTB) Fatalf(format string, args ...any) {
	c.fail(fmt.Sprintf(format, args...))
	runtime.Goexit()
}
func (c *capTB) Fatal(args ...any) { c.fail(fmt.Sprint(args...)); runtime.Goexit() }
func (c *capTB) FailNow()          { c.fail(""); runtime.Goexit() }
func (c *capTB) Fail()             { c.fail("") }
func (c *capTB) Failed() bool      { c.mu.Lock(); defer c.mu.Unlock(); return c.failed }
func (c *capTB) fail(m string) {
	c.mu.Lock()
	c.failed = true
	if m != "" {
		c.msgs = append(c.msgs, m)
	}
	c.mu.Unlock()
}

// Check describes one generated check of a property.
type Check[C any] struct {
	Name string
	// N is the number of cases this shard should generate.
	N   int
	Gen func(t *rapid.T) C
	Run func(c C) Result
	// Confirm, when set, re-executes a failing case once more; the failure is only believed
	// when it fails again (used by timing-based liveness oracles).
	Confirm bool
	// RecordCurrent writes every case to <out>/current-case.json before it runs, so that a crash of
	// the whole process (unrecovered panic or fatal error inside the library) leaves the culprit on disk;
	// the driver turns it into a violation.
	RecordCurrent bool
}

func (r *Runner) recordCurrent(check string, raw []byte) {
	rf := ReplayFile{Property: r.ID, Check: check, Error: "the process died while this case was running (unrecovered panic or fatal runtime error)", Case: raw}
	b, _ := json.Marshal(rf)
	_ = os.WriteFile(filepath.Join(r.OutDir, "current-case.json"), b, 0o644)
}

func (r *Runner) clearCurrent() { _ = os.Remove(filepath.Join(r.OutDir, "current-case.json")) }

// IsHarnessErr reports whether a result says that the harness itself could not set the case up
// because the environment ran out of a resource (ports, descriptors, memory, disk): that is never a
// statement about the code. Any other set-up failure is still reported (the code under test takes part in it).
func IsHarnessErr(res Result) bool {
	if res.Err == nil || !strings.HasPrefix(res.Err.Error(), "harness:") {
		return false
	}
	for _, e := range []string{"address already in use", "too many open files", "cannot assign requested address",
		"no buffer space available", "cannot allocate memory", "no space left on device"} {
		if strings.Contains(res.Err.Error(), e) {
			return true
		}
	}
	return false
}

// guarded runs a case; a harness set-up error is retried after a pause and, if it persists, the case is
// skipped and counted (too many skipped cases make the run inconclusive, never a violation).
func guarded[C any](r *Runner, name string, run func(C) Result, c C) Result {
	res := run(c)
	for try := 0; try < 3 && IsHarnessErr(res); try++ {
		time.Sleep(time.Duration(500*(try+1)) * time.Millisecond)
		res = run(c)
	}
	if IsHarnessErr(res) {
		r.mu.Lock()
		r.harnessSkips++
		n := r.harnessSkips
		r.classes["harness-setup-error-case-skipped"]++
		r.mu.Unlock()
		if n <= 5 {
			r.Note("%s: case skipped, the harness could not set it up: %v", name, res.Err)
		}
		return Result{Classes: []string{"skipped"}}
	}
	return res
}

// Register makes a check replayable without running its generated search.
func Register[C any](r *Runner, name string, run func(C) Result) {
	r.replayers[name] = func(raw json.RawMessage) Result {
		var c C
		if err := json.Unmarshal(raw, &c); err != nil {
			return Fail("replay: cannot decode case for %s: %v", name, err)
		}
		return run(c)
	}
}

// RunCheck runs the generated search of one check under rapid and records the evidence.
func RunCheck[C any](r *Runner, ck Check[C]) {
	Register(r, ck.Name, ck.Run)
	if os.Getenv("VERIF_REPLAY") != "" || os.Getenv("VERIF_ONLY_REGRESS") != "" {
		return
	}
	if only := os.Getenv("VERIF_ONLY"); only != "" && !strings.Contains(","+only+",", ","+ck.Name+",") {
		return
	}
	r.mu.Lock()
	if r.perCheck[ck.Name] == nil {
		r.perCheck[ck.Name] = &checkStat{}
	}
	r.perCheck[ck.Name].Requested += ck.N
	r.mu.Unlock()

	var (
		failing     bool
		lastFailRaw []byte
		lastFailErr string
		lastKnown   string
	)
	prop := func(t *rapid.T) {
		if r.OutOfBudget() {
			return
		}
		c := ck.Gen(t)
		raw, err := json.Marshal(c)
		if err != nil {
			panic("vlib: case not JSON-encodable: " + err.Error())
		}
		if ck.RecordCurrent {
			r.recordCurrent(ck.Name, raw)
		}
		res := guarded(r, ck.Name, ck.Run, c)
		if res.Err != nil && ck.Confirm {
			res2 := guarded(r, ck.Name, ck.Run, c)
			if res2.Err == nil {
				r.Note("%s: a failure did not reproduce on immediate re-execution and was discarded: %v", ck.Name, res.Err)
				res = res2
			}
		}
		r.record(ck.Name, raw, res, failing)
		if res.Err != nil {
			if res.Known != "" && r.KnownFinding(res.Known) {
				r.mu.Lock()
				r.knownSeen[res.Known] = res.Err.Error()
				r.excluded[res.Known]++
				r.mu.Unlock()
				return
			}
			failing = true
			lastFailRaw = raw
			lastFailErr = res.Err.Error()
			lastKnown = res.Known
			t.Fatalf("%v", res.Err)
		}
	}
	_ = lastKnown
	tb := &capTB{name: r.ID + "_" + ck.Name}
	_ = flag.Set("rapid.checks", strconv.Itoa(ck.N))
	done := make(chan struct{})
	go func() {
		defer close(done)
		rapid.Check(tb, prop)
	}()
	<-done
	if ck.RecordCurrent {
		r.clearCurrent()
	}
	if tb.Failed() {
		if lastFailRaw == nil {
			// rapid itself complained (e.g. generator problems) - harness error, not a violation
			r.Note("%s: rapid reported a problem without a failing case: %s", ck.Name, strings.Join(tb.msgs, " | "))
			r.T.Errorf("HARNESS-ERROR %s: %s", ck.Name, strings.Join(tb.msgs, " | "))
			return
		}
		path := r.writeReplay(ck.Name, lastFailRaw, lastFailErr)
		r.mu.Lock()
		r.violations = append(r.violations, Violation{Check: ck.Name, Replay: path, Error: lastFailErr})
		r.mu.Unlock()
		r.T.Logf("violation in %s: %s (replay %s)", ck.Name, lastFailErr, path)
	} else {
		for _, l := range tb.logs {
			if strings.Contains(l, "OK, passed") {
				var n int
				fmt.Sscanf(l[strings.Index(l, "passed")+7:], "%d", &n)
				r.mu.Lock()
				r.perCheck[ck.Name].Passed += n
				r.mu.Unlock()
			}
		}
	}
}

// RunCases runs an explicit (enumerated) list of cases through a check; used for exhaustive
// sub-spaces and matrix cells. It stops at the first failure.
func RunCases[C any](r *Runner, name string, cases []C, run func(C) Result, confirm bool) {
	Register(r, name, run)
	if os.Getenv("VERIF_REPLAY") != "" || os.Getenv("VERIF_ONLY_REGRESS") != "" {
		return
	}
	if only := os.Getenv("VERIF_ONLY"); only != "" && !strings.Contains(","+only+",", ","+name+",") {
		return
	}
	for i, c := range cases {
		if i%r.NShards != r.Shard {
			continue
		}
		if r.OutOfBudget() {
			return
		}
		raw, _ := json.Marshal(c)
		if confirm {
			r.recordCurrent(name, raw)
		}
		res := guarded(r, name, run, c)
		if confirm {
			r.clearCurrent()
		}
		if res.Err != nil && confirm {
			if res2 := guarded(r, name, run, c); res2.Err == nil {
				r.Note("%s: a failure did not reproduce on immediate re-execution and was discarded: %v", name, res.Err)
				res = res2
			}
		}
		r.record(name, raw, res, false)
		if res.Err != nil {
			if res.Known != "" && r.KnownFinding(res.Known) {
				r.mu.Lock()
				r.knownSeen[res.Known] = res.Err.Error()
				r.excluded[res.Known]++
				r.mu.Unlock()
				continue
			}
			path := r.writeReplay(name, raw, res.Err.Error())
			r.mu.Lock()
			r.violations = append(r.violations, Violation{Check: name, Replay: path, Error: res.Err.Error()})
			r.mu.Unlock()
			return
		}
	}
}

// MarkExhaustive records that a named sub-space was enumerated completely.
func (r *Runner) MarkExhaustive(name string) {
	r.mu.Lock()
	r.exhaustive[name] = true
	r.mu.Unlock()
}

func (r *Runner) writeReplay(check string, raw []byte, errText string) string {
	rf := ReplayFile{Property: r.ID, Check: check, Error: errText, Case: raw}
	b, _ := json.MarshalIndent(rf, "", " ")
	sum := sha256.Sum256(append([]byte(check), raw...))
	dir := filepath.Join(r.OutDir, "replay")
	_ = os.MkdirAll(dir, 0o755)
	path := filepath.Join(dir, fmt.Sprintf("%s-%s-%s.json", r.ID, check, hex.EncodeToString(sum[:6])))
	_ = os.WriteFile(path, b, 0o644)
	return path
}

// Replay runs one replay file; returns the result.
func (r *Runner) Replay(path string) Result {
	b, err := os.ReadFile(path)
	if err != nil {
		return Fail("replay: %v", err)
	}
	var rf ReplayFile
	if err := json.Unmarshal(b, &rf); err != nil {
		return Fail("replay: bad file %s: %v", path, err)
	}
	f := r.replayers[rf.Check]
	if f == nil {
		return Fail("replay: unknown check %q in %s", rf.Check, path)
	}
	res := f(rf.Case)
	for try := 0; try < 3 && IsHarnessErr(res); try++ {
		time.Sleep(time.Duration(500*(try+1)) * time.Millisecond)
		res = f(rf.Case)
	}
	if IsHarnessErr(res) {
		r.Note("replay of %s skipped, the harness could not set it up: %v", path, res.Err)
		r.T.Errorf("HARNESS-ERROR replay of %s: %v", path, res.Err)
		return Result{}
	}
	return res
}

// Finish replays regress cases (or the requested replay file) and writes the evidence part.
// It must be called after all RunCheck/RunCases calls (they register the replayers).
func (r *Runner) Finish() {
	if p := os.Getenv("VERIF_REPLAY"); p != "" {
		res := r.Replay(p)
		if res.Err != nil {
			fmt.Printf("REPLAY-FAIL property=%s file=%s error=%s\n", r.ID, p, oneLine(res.Err.Error()))
			r.mu.Lock()
			r.violations = append(r.violations, Violation{Check: "replay", Replay: p, Error: res.Err.Error()})
			r.mu.Unlock()
		} else {
			fmt.Printf("REPLAY-PASS property=%s file=%s\n", r.ID, p)
		}
		r.writePart()
		return
	}
	// committed regression cases: shard 0 only
	regress := 0
	if r.Shard == 0 {
		files, _ := filepath.Glob(filepath.Join(r.Root, "regress", r.ID, "*.json"))
		sort.Strings(files)
		for _, f := range files {
			res := r.Replay(f)
			regress++
			if res.Err != nil {
				if res.Known != "" && r.KnownFinding(res.Known) {
					r.mu.Lock()
					r.knownSeen[res.Known] = res.Err.Error()
					r.mu.Unlock()
					continue
				}
				r.mu.Lock()
				r.violations = append(r.violations, Violation{Check: "regress", Replay: f, Error: res.Err.Error()})
				r.mu.Unlock()
			}
		}
	}
	r.mu.Lock()
	r.classes["regress_cases_replayed"] += int64(regress)
	skips, evals := r.harnessSkips, r.evals
	r.mu.Unlock()
	if skips > 3 && skips*100 > evals {
		r.T.Errorf("HARNESS-ERROR %d of %d cases could not be set up by the harness (environment)", skips, evals)
	}
	r.writePart()
}

func oneLine(s string) string {
	s = strings.ReplaceAll(s, "\n", " ")
	if len(s) > 400 {
		s = s[:400] + "..."
	}
	return s
}

// Part is the per-shard evidence written for the driver to merge.
type Part struct {
	Property    string                `json:"property"`
	Shard       int                   `json:"shard"`
	Evals       int64                 `json:"evaluations"`
	ShrinkEvals int64                 `json:"shrink_evaluations"`
	Hashes      []string              `json:"nontrivial_hashes"`
	Classes     map[string]int64      `json:"classes"`
	Excluded    map[string]int64      `json:"excluded"`
	Samples     []json.RawMessage     `json:"samples"`
	Violations  []Violation           `json:"violations"`
	KnownSeen   map[string]string     `json:"known_seen"`
	KnownListed map[string]string     `json:"known_listed"`
	PerCheck    map[string]*checkStat `json:"per_check"`
	Notes       []string              `json:"notes"`
	BudgetHit   bool                  `json:"budget_hit"`
	Exhaustive  []string              `json:"exhaustive"`
}

func (r *Runner) writePart() {
	r.mu.Lock()
	defer r.mu.Unlock()
	p := Part{Property: r.ID, Shard: r.Shard, Evals: r.evals, ShrinkEvals: r.shrinkEvals,
		Classes: r.classes, Excluded: r.excluded, Samples: r.samples, Violations: r.violations,
		KnownSeen: r.knownSeen, KnownListed: r.known, PerCheck: r.perCheck, Notes: r.notes, BudgetHit: r.budgetHit}
	for h := range r.hashes {
		p.Hashes = append(p.Hashes, strconv.FormatUint(h, 16))
	}
	sort.Strings(p.Hashes)
	for k := range r.exhaustive {
		p.Exhaustive = append(p.Exhaustive, k)
	}
	sort.Strings(p.Exhaustive)
	b, _ := json.Marshal(p)
	_ = os.MkdirAll(r.OutDir, 0o755)
	if err := os.WriteFile(filepath.Join(r.OutDir, fmt.Sprintf("part-%d.json", r.Shard)), b, 0o644); err != nil {
		r.T.Errorf("HARNESS-ERROR cannot write evidence part: %v", err)
	}
}

var hungOnce struct {
	mu   sync.Mutex
	hung bool
}

// WithWatchdog runs f and reports a hang as a violation when it does not return within d. After a
// hang every later call returns a trivially passing result immediately (the stuck goroutine keeps a
// core busy and shrinking a hang would cost d per attempt), so the reported case is the original one.
func WithWatchdog(d time.Duration, what string, f func() Result) Result {
	hungOnce.mu.Lock()
	h := hungOnce.hung
	hungOnce.mu.Unlock()
	if h {
		return Result{Classes: []string{"skipped-after-hang"}}
	}
	done := make(chan Result, 1)
	go func() { done <- f() }()
	// the time-out is counted in experienced time (see Experienced): a process that was stopped or starved for a
	// minute has not seen its code hang for a minute
	start := Experienced()
	tick := time.NewTicker(50 * time.Millisecond)
	defer tick.Stop()
	for {
		select {
		case r := <-done:
			return r
		case <-tick.C:
			if Experienced()-start <= d {
				continue
			}
			hungOnce.mu.Lock()
			hungOnce.hung = true
			hungOnce.mu.Unlock()
			return Fail("%s did not return within %v (hang / unbounded work)", what, d)
		}
	}
}

// FuzzFail is called by native fuzz targets when the oracle fails on a fuzz input: the case is saved
// in the harness's own replay format under $VERIF_OUT/fuzzreplay (the driver reports it as a violation);
// the Go fuzzer additionally keeps its own crasher file.
func FuzzFail(id, check string, c any, errText string) string {
	raw, _ := json.Marshal(c)
	rf := ReplayFile{Property: id, Check: check, Error: errText, Note: "found by go test -fuzz", Case: raw}
	b, _ := json.MarshalIndent(rf, "", " ")
	out := os.Getenv("VERIF_OUT")
	if out == "" {
		out = os.TempDir()
	}
	dir := filepath.Join(out, "fuzzreplay")
	_ = os.MkdirAll(dir, 0o755)
	sum := sha256.Sum256(raw)
	path := filepath.Join(dir, fmt.Sprintf("%s-%s-fuzz-%s.json", id, check, hex.EncodeToString(sum[:6])))
	_ = os.WriteFile(path, b, 0o644)
	return path
}

// CutsFromSeed derives a deterministic segmentation of n bytes from a fuzzer-chosen seed.
func CutsFromSeed(n int, seed uint32) []int {
	if n <= 1 {
		return nil
	}
	var cuts []int
	switch seed % 4 {
	case 0:
		return nil
	case 1: // byte at a time (bounded)
		for i := 1; i < n && i < 2000; i++ {
			cuts = append(cuts, i)
		}
	case 2: // fixed stride
		st := int(seed>>2)%61 + 1
		for i := st; i < n; i += st {
			cuts = append(cuts, i)
		}
	default: // pseudo-random
		x := seed | 1
		pos := 0
		for {
			x ^= x << 13
			x ^= x >> 17
			x ^= x << 5
			pos += int(x%97) + 1
			if pos >= n {
				break
			}
			cuts = append(cuts, pos)
		}
	}
	return cuts
}
