//go:build !verifshim

package vlib

const YieldAvailable = false

func Yield(perMille int, seed uint64) func() { return func() {} }
