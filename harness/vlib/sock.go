package vlib

import (
	"fmt"
	"net"
	"os"
	"path/filepath"
	"sync/atomic"
	"syscall"
	"time"

	"github.com/lesismal/nbio"
)

func init() {
	// Engine.Start allocates a slice of this size; keep engine creation cheap.
	nbio.MaxOpenFiles = 16384
}

// Epoll mode names used in cases.
const (
	ModeLT      = "LT"
	ModeET      = "ET"
	ModeOneshot = "ET+ONESHOT"
)

var Modes = []string{ModeLT, ModeET, ModeOneshot}

// ApplyMode sets the epoll mode fields of an nbio.Config.
func ApplyMode(conf *nbio.Config, mode string) {
	switch mode {
	case ModeET:
		conf.EpollMod = nbio.EPOLLET
	case ModeOneshot:
		conf.EpollMod = nbio.EPOLLET
		conf.EPOLLONESHOT = nbio.EPOLLONESHOT
	default:
		conf.EpollMod = nbio.EPOLLLT
	}
}

var sockSeq int64

// StreamPair creates a connected stream socket pair (tcp loop-back or unix). The first conn is meant
// to be handed to the engine (AddConn), the second is the harness-owned peer. Buffer sizes <= 0 are
// left at the kernel default (autotuning stays on).
func StreamPair(transport string, sndbuf, peerRcvbuf int) (a, b net.Conn, err error) {
	var ln net.Listener
	var dir string
	if transport == "unix" {
		dir, err = os.MkdirTemp("", "vsock")
		if err != nil {
			return nil, nil, err
		}
		defer os.RemoveAll(dir)
		ln, err = net.Listen("unix", filepath.Join(dir, fmt.Sprintf("s%d", atomic.AddInt64(&sockSeq, 1))))
	} else {
		ln, err = net.Listen("tcp", "127.0.0.1:0")
	}
	if err != nil {
		return nil, nil, err
	}
	defer ln.Close()
	type res struct {
		c   net.Conn
		err error
	}
	ch := make(chan res, 1)
	go func() {
		c, err := ln.Accept()
		ch <- res{c, err}
	}()
	// the receive buffer of a TCP socket has to be set before connecting to influence the window
	d := net.Dialer{Timeout: 5 * time.Second}
	if peerRcvbuf > 0 {
		d.Control = func(network, address string, c syscall.RawConn) error {
			return c.Control(func(fd uintptr) {
				_ = syscall.SetsockoptInt(int(fd), syscall.SOL_SOCKET, syscall.SO_RCVBUF, peerRcvbuf)
			})
		}
	}
	b, err = d.Dial(ln.Addr().Network(), ln.Addr().String())
	if err != nil {
		return nil, nil, err
	}
	r := <-ch
	if r.err != nil {
		b.Close()
		return nil, nil, r.err
	}
	a = r.c
	if sndbuf > 0 {
		switch c := a.(type) {
		case *net.TCPConn:
			_ = c.SetWriteBuffer(sndbuf)
		case *net.UnixConn:
			_ = c.SetWriteBuffer(sndbuf)
		}
	}
	if peerRcvbuf > 0 {
		switch c := b.(type) {
		case *net.TCPConn:
			_ = c.SetReadBuffer(peerRcvbuf)
		case *net.UnixConn:
			_ = c.SetReadBuffer(peerRcvbuf)
		}
	}
	if tc, ok := a.(*net.TCPConn); ok {
		_ = tc.SetNoDelay(true)
	}
	if tc, ok := b.(*net.TCPConn); ok {
		_ = tc.SetNoDelay(true)
	}
	return a, b, nil
}

// StopEngine stops an engine with a bound; it reports false when Stop did not return in time.
func StopEngine(stop func(), d time.Duration) bool {
	done := make(chan struct{})
	go func() {
		stop()
		close(done)
	}()
	select {
	case <-done:
		return true
	case <-time.After(d):
		return false
	}
}

// Experienced time: the time this process has verifiably been running, counted in 10 ms ticks that were
// delivered to a goroutine of its own. A process that is stopped (a snapshot of the whole machine was observed to
// freeze everything for about a minute) or starved does not accumulate it, so a time-out measured with it says
// "this much time was available to the code and it still had not happened" - which is what the checks mean. On a
// machine that is not starved it runs at wall-clock speed.
var expTicks int64

func init() {
	go func() {
		t := time.NewTicker(10 * time.Millisecond)
		for range t.C {
			atomic.AddInt64(&expTicks, 1)
		}
	}()
}

// Experienced returns the experienced time since the process started.
func Experienced() time.Duration {
	return time.Duration(atomic.LoadInt64(&expTicks)) * 10 * time.Millisecond
}

// WaitUntil polls cond until it is true or the duration has passed (in experienced time).
func WaitUntil(d time.Duration, cond func() bool) bool {
	start := Experienced()
	for {
		if cond() {
			return true
		}
		if Experienced()-start > d {
			return cond()
		}
		time.Sleep(200 * time.Microsecond)
	}
}

// WaitProgress polls done until it is true; it gives up only when the progress counter has not moved for
// the idle duration (a slow run is not a stuck run).
func WaitProgress(idle time.Duration, done func() bool, progress func() int64) bool {
	last := progress()
	lastAt := Experienced()
	for {
		if done() {
			return true
		}
		if p := progress(); p != last {
			last, lastAt = p, Experienced()
		} else if Experienced()-lastAt > idle {
			return done()
		}
		time.Sleep(200 * time.Microsecond)
	}
}

// CPUTime returns the process CPU time (user+system).
func CPUTime() time.Duration {
	var ru syscall.Rusage
	_ = syscall.Getrusage(syscall.RUSAGE_SELF, &ru)
	return time.Duration(ru.Utime.Nano() + ru.Stime.Nano())
}

// OpenFDs returns the numbers of the open file descriptors of this process.
func OpenFDs() map[int]string {
	out := map[int]string{}
	ents, err := os.ReadDir("/proc/self/fd")
	if err != nil {
		return out
	}
	for _, e := range ents {
		var n int
		if _, err := fmt.Sscanf(e.Name(), "%d", &n); err == nil {
			l, err := os.Readlink("/proc/self/fd/" + e.Name())
			if err != nil {
				continue // the fd used for reading the directory itself
			}
			out[n] = l
		}
	}
	return out
}

// TagByte is the self-identifying payload byte used by the socket checks: the writer id in the two
// top bits and a position-dependent value below.
func TagByte(w int, pos int64) byte {
	return byte(w<<6) | byte((pos*37+(pos>>6)*11+(pos>>12)*5+(pos>>18))&0x3f)
}

// FillTagged returns n tagged bytes of writer w starting at stream position pos.
func FillTagged(w int, pos int64, n int) []byte {
	b := make([]byte, n)
	for i := range b {
		b[i] = TagByte(w, pos+int64(i))
	}
	return b
}

// CheckTagged verifies that data continues writer w's stream at position pos; it returns the index
// of the first wrong byte or -1.
func CheckTagged(w int, pos int64, data []byte) int {
	for i, b := range data {
		if b != TagByte(w, pos+int64(i)) {
			return i
		}
	}
	return -1
}
