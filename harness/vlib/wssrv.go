package vlib

import (
	"crypto/tls"
	"fmt"
	"net"
	"net/http"
	"time"

	"github.com/lesismal/nbio/nbhttp"
	"github.com/lesismal/nbio/nbhttp/websocket"
)

// WSPaths are the upgrade paths of a WebSocket server connection: poller-driven, blocking with the HTTP
// parser's read loop, blocking engine + transferred to the poller, std net/http server with the
// connection's own read loop, std server + transferred to the poller.
var WSPaths = []string{"nb", "blocking-parser", "blocking-transfer", "std-readloop", "std-transfer", "std-handleread"}

// WSPathHasTLS reports whether TLS can be terminated by the engine on that path.
func WSPathHasTLS(path string) bool {
	return path != "std-readloop" && path != "std-transfer" && path != "std-handleread"
}

// StartWSServer starts a server that upgrades every request with u on the given path and returns its
// address and a stop function.
func StartWSServer(path string, useTLS bool, mode string, u *websocket.Upgrader, tune func(*nbhttp.Config)) (addr string, stop func(), err error) {
	transfer := path == "blocking-transfer" || path == "std-transfer"
	manualRead := path == "std-handleread"
	handler := http.HandlerFunc(func(w http.ResponseWriter, r *http.Request) {
		if manualRead {
			// the application starts the read loop itself, with a buffer size of its choice
			if wc, err := u.UpgradeWithoutHandlingReadForConnFromSTDServer(w, r, nil); err == nil {
				go wc.HandleRead(61)
			}
		} else if transfer {
			_, _ = u.UpgradeAndTransferConnToPoller(w, r, nil)
		} else {
			_, _ = u.Upgrade(w, r, nil)
		}
	})
	conf := nbhttp.Config{Network: "tcp", NPoller: 2, Handler: handler}
	ApplyHTTPMode(&conf, mode)
	std := path == "std-readloop" || path == "std-transfer" || path == "std-handleread"
	if !std {
		if useTLS {
			conf.AddrsTLS = []string{"127.0.0.1:0"}
			conf.TLSConfig = ServerTLSConfig()
		} else {
			conf.Addrs = []string{"127.0.0.1:0"}
		}
		conf.IOMod = nbhttp.IOModNonBlocking
		if path != "nb" {
			conf.IOMod = nbhttp.IOModBlocking
		}
	}
	if tune != nil {
		tune(&conf)
	}
	engine := nbhttp.NewEngine(conf)
	u.Engine = engine
	if err := engine.Start(); err != nil {
		return "", nil, fmt.Errorf("harness: http engine start: %v", err)
	}
	if std {
		ln, err := net.Listen("tcp", "127.0.0.1:0")
		if err != nil {
			StopEngine(engine.Stop, 10*time.Second)
			return "", nil, fmt.Errorf("harness: listen: %v", err)
		}
		srv := &http.Server{Handler: handler}
		go srv.Serve(ln)
		return ln.Addr().String(), func() { srv.Close(); StopEngine(engine.Stop, 10*time.Second) }, nil
	}
	if useTLS {
		addr = engine.AddrsTLS[0]
	} else {
		addr = engine.Addrs[0]
	}
	return addr, func() { StopEngine(engine.Stop, 10*time.Second) }, nil
}

// DialWS connects (plain or TLS) and performs the WebSocket handshake.
func DialWS(addr string, useTLS bool, offerCompression bool) (net.Conn, *WSClient, error) {
	var conn net.Conn
	var err error
	if useTLS {
		conn, err = tls.DialWithDialer(&net.Dialer{Timeout: 3 * time.Second}, "tcp", addr, &tls.Config{InsecureSkipVerify: true})
	} else {
		conn, err = net.DialTimeout("tcp", addr, 3*time.Second)
	}
	if err != nil {
		return nil, nil, fmt.Errorf("harness: dial: %v", err)
	}
	cl, err := WSHandshake(conn, "/ws", offerCompression)
	if err != nil {
		conn.Close()
		return nil, nil, err
	}
	return conn, cl, nil
}
