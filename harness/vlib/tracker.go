package vlib

import (
	"fmt"
	"runtime"
	"strings"
	"sync"
	"unsafe"
)

// Tracker is a non-recycling, poisoning allocator that implements mempool.Allocator. Every buffer
// it hands out is a fresh array filled with junk (0xA5); Free poisons the array (0xDD) and keeps it
// in quarantine, so a double free, an append/realloc/free of a freed buffer and a write after free
// are observable. It is installed through the public allocator interface only.
type Tracker struct {
	mu         sync.Mutex
	recs       []*trec
	violations []string
	Mallocs    int64
	Frees      int64
	Foreign    int64 // frees of arrays the tracker never produced (counted, not asserted)
	PeakReq    int   // largest single size requested
	LiveBytes  int
	PeakLive   int
	stacks     bool
	// MovePointer: when a buffer has to move to a bigger array, Append / AppendString / Realloc hand back a NEW
	// pointer object and leave the old one looking at the retired (poisoned) array - what the size-aligned
	// allocator of the library does. A caller that ignores the returned pointer then reads poison and is
	// reported (use after free) on its next operation. Default: the pointer object is kept (like the pooled
	// allocator).
	MovePointer bool
}

type trec struct {
	arr    []byte // full capacity
	lo, hi uintptr
	freed  bool
	moved  bool
	id     int64
	freeBy string
}

const (
	junkByte   = 0xA5
	poisonByte = 0xDD
)

func NewTracker() *Tracker { return &Tracker{stacks: true} }

func base(b []byte) uintptr {
	if cap(b) == 0 {
		return 0
	}
	return uintptr(unsafe.Pointer(&b[:1][0]))
}

func (t *Tracker) find(b []byte) *trec {
	p := base(b)
	if p == 0 {
		return nil
	}
	for i := len(t.recs) - 1; i >= 0; i-- {
		r := t.recs[i]
		if p >= r.lo && p < r.hi {
			return r
		}
	}
	return nil
}

func (t *Tracker) newArr(size, capHint int) []byte {
	c := capHint
	if c < size {
		c = size
	}
	if floor := t.minCap(); c < floor {
		c = floor
	}
	arr := make([]byte, c)
	for i := range arr {
		arr[i] = junkByte
	}
	r := &trec{arr: arr, lo: base(arr), id: t.Mallocs}
	r.hi = r.lo + uintptr(c)
	t.recs = append(t.recs, r)
	t.LiveBytes += c
	if t.LiveBytes > t.PeakLive {
		t.PeakLive = t.LiveBytes
	}
	return arr[:size]
}

// minCap: no spare capacity in pointer-moving mode, so that every append that adds something moves the buffer
func (t *Tracker) minCap() int {
	if t.MovePointer {
		return 1
	}
	return 64
}

func caller() string {
	var pcs [12]uintptr
	n := runtime.Callers(3, pcs[:])
	fr := runtime.CallersFrames(pcs[:n])
	var sb strings.Builder
	for {
		f, more := fr.Next()
		if strings.Contains(f.Function, "lesismal/nbio") && !strings.Contains(f.Function, "mempool.") {
			fn := f.Function[strings.LastIndex(f.Function, "/")+1:]
			fmt.Fprintf(&sb, "%s:%d < ", fn, f.Line)
		}
		if !more {
			break
		}
	}
	return strings.TrimSuffix(sb.String(), " < ")
}

func (t *Tracker) violate(format string, args ...any) {
	if len(t.violations) < 20 {
		t.violations = append(t.violations, fmt.Sprintf(format, args...))
	}
}

func (t *Tracker) Malloc(size int) *[]byte {
	t.mu.Lock()
	defer t.mu.Unlock()
	t.Mallocs++
	if size > t.PeakReq {
		t.PeakReq = size
	}
	b := t.newArr(size, 0)
	return &b
}

func (t *Tracker) grow(pbuf *[]byte, newLen int, what string) *[]byte {
	// caller holds the lock; the buffer needs a bigger array
	r := t.find(*pbuf)
	if newLen > t.PeakReq {
		t.PeakReq = newLen
	}
	nb := t.newArr(newLen, newLen+newLen/4)
	copy(nb, *pbuf)
	if r != nil {
		// the old array is abandoned by the grow: poison it so that stale aliases become visible
		for i := range r.arr {
			r.arr[i] = poisonByte
		}
		r.freed = true
		r.moved = true
		r.freeBy = what + " (moved) at " + caller()
		t.LiveBytes -= len(r.arr)
	}
	if t.MovePointer {
		// the old pointer object keeps looking at the retired array
		np := new([]byte)
		*np = nb
		return np
	}
	*pbuf = nb
	return pbuf
}

func (t *Tracker) checkLive(pbuf *[]byte, op string) bool {
	if pbuf == nil {
		t.violate("%s on a nil buffer at %s", op, caller())
		return false
	}
	r := t.find(*pbuf)
	if r != nil && r.freed {
		t.violate("use after free: %s on a buffer that was already released by [%s]; now at [%s]", op, r.freeBy, caller())
		return false
	}
	return true
}

func (t *Tracker) Realloc(pbuf *[]byte, size int) *[]byte {
	t.mu.Lock()
	defer t.mu.Unlock()
	t.checkLive(pbuf, "Realloc")
	if size <= cap(*pbuf) {
		*pbuf = (*pbuf)[:size]
		return pbuf
	}
	return t.grow(pbuf, size, "Realloc")
}

func (t *Tracker) Append(pbuf *[]byte, more ...byte) *[]byte {
	t.mu.Lock()
	defer t.mu.Unlock()
	t.checkLive(pbuf, "Append")
	if pbuf == nil {
		b := append([]byte(nil), more...)
		return &b
	}
	n := len(*pbuf)
	if cap(*pbuf)-n >= len(more) {
		*pbuf = (*pbuf)[:n+len(more)]
		copy((*pbuf)[n:], more)
		return pbuf
	}
	np := t.grow(pbuf, n+len(more), "Append")
	copy((*np)[n:], more)
	return np
}

func (t *Tracker) AppendString(pbuf *[]byte, more string) *[]byte {
	t.mu.Lock()
	defer t.mu.Unlock()
	t.checkLive(pbuf, "AppendString")
	if pbuf == nil {
		b := []byte(more)
		return &b
	}
	n := len(*pbuf)
	if cap(*pbuf)-n >= len(more) {
		*pbuf = (*pbuf)[:n+len(more)]
		copy((*pbuf)[n:], more)
		return pbuf
	}
	np := t.grow(pbuf, n+len(more), "AppendString")
	copy((*np)[n:], more)
	return np
}

func (t *Tracker) Free(pbuf *[]byte) {
	t.mu.Lock()
	defer t.mu.Unlock()
	if pbuf == nil || cap(*pbuf) == 0 {
		return
	}
	t.Frees++
	r := t.find(*pbuf)
	if r == nil {
		// An array the allocator never produced is handed to the pool. That is legal (a buffer may be
		// donated), but from now on it belongs to the pool: adopt it as a freed buffer, so that a later
		// use or a second Free by its former owner is seen like any other use after free.
		t.Foreign++
		full := (*pbuf)[:cap(*pbuf)]
		ar := &trec{arr: full, lo: base(full), id: -t.Foreign, freed: true, freeBy: "Free (buffer not obtained from the allocator) at " + caller()}
		ar.hi = ar.lo + uintptr(len(full))
		t.recs = append(t.recs, ar)
		for i := range full {
			full[i] = poisonByte
		}
		return
	}
	if r.freed {
		if r.moved {
			t.violate("use after free: Free of a stale alias of a buffer that had been moved by [%s]; now at [%s]", r.freeBy, caller())
		} else {
			t.violate("double free: buffer already released by [%s] is released again at [%s]", r.freeBy, caller())
		}
		return
	}
	r.freed = true
	r.freeBy = "Free at " + caller()
	t.LiveBytes -= len(r.arr)
	for i := range r.arr {
		r.arr[i] = poisonByte
	}
}

// Finish scans the quarantine for writes after free and returns all violations seen so far.
func (t *Tracker) Finish() []string {
	t.mu.Lock()
	defer t.mu.Unlock()
	for _, r := range t.recs {
		if !r.freed {
			continue
		}
		for i, b := range r.arr {
			if b != poisonByte {
				t.violate("write after free: a buffer released by [%s] was modified afterwards at offset %d (%#x)", r.freeBy, i, b)
				break
			}
		}
	}
	return t.violations
}

// Violations returns the violations seen so far without scanning.
func (t *Tracker) Violations() []string {
	t.mu.Lock()
	defer t.mu.Unlock()
	return append([]string(nil), t.violations...)
}

// Live returns the number of buffers not yet freed (informational).
func (t *Tracker) Live() int {
	t.mu.Lock()
	defer t.mu.Unlock()
	n := 0
	for _, r := range t.recs {
		if !r.freed {
			n++
		}
	}
	return n
}

// FreedCount returns the number of tracked buffers that were freed.
func (t *Tracker) FreedCount() int {
	t.mu.Lock()
	defer t.mu.Unlock()
	n := 0
	for _, r := range t.recs {
		if r.freed && !r.moved {
			n++
		}
	}
	return n
}

// Reset drops all records (between cases).
func (t *Tracker) Reset() {
	t.mu.Lock()
	// adopted foreign buffers (id < 0) stay in quarantine across cases: they are typically long-lived
	// objects (globals), and a second Free of the same object in a later case is still a double free
	var keep []*trec
	for _, r := range t.recs {
		if r.id < 0 {
			keep = append(keep, r)
		}
	}
	t.recs = keep
	t.violations = nil
	t.Mallocs, t.Frees, t.PeakReq, t.LiveBytes, t.PeakLive = 0, 0, 0, 0, 0
	t.mu.Unlock()
}

// ContainsPoison reports whether b contains a run of at least n poison bytes (read after free made visible).
func ContainsPoison(b []byte, n int) bool {
	run := 0
	for _, c := range b {
		if c == poisonByte {
			run++
			if run >= n {
				return true
			}
		} else {
			run = 0
		}
	}
	return false
}
