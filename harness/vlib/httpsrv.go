package vlib

import (
	"crypto/ecdsa"
	"crypto/elliptic"
	"crypto/rand"
	"crypto/x509"
	"crypto/x509/pkix"
	"encoding/pem"
	"math/big"
	"sync"
	"time"

	ltls "github.com/lesismal/llib/std/crypto/tls"
	"github.com/lesismal/nbio"
	"github.com/lesismal/nbio/nbhttp"
)

var (
	certOnce sync.Once
	certPEM  []byte
	keyPEM   []byte
)

// SelfSigned returns a run-time generated self-signed certificate (PEM) for 127.0.0.1 / localhost.
func SelfSigned() (cert, key []byte) {
	certOnce.Do(func() {
		priv, err := ecdsa.GenerateKey(elliptic.P256(), rand.Reader)
		if err != nil {
			panic(err)
		}
		tmpl := x509.Certificate{
			SerialNumber: big.NewInt(1), Subject: pkix.Name{CommonName: "verif.local"},
			NotBefore: time.Now().Add(-time.Hour), NotAfter: time.Now().Add(240 * time.Hour),
			KeyUsage: x509.KeyUsageDigitalSignature | x509.KeyUsageCertSign, ExtKeyUsage: []x509.ExtKeyUsage{x509.ExtKeyUsageServerAuth},
			BasicConstraintsValid: true, IsCA: true, DNSNames: []string{"localhost", "verif.local"},
		}
		der, err := x509.CreateCertificate(rand.Reader, &tmpl, &tmpl, &priv.PublicKey, priv)
		if err != nil {
			panic(err)
		}
		kb, err := x509.MarshalECPrivateKey(priv)
		if err != nil {
			panic(err)
		}
		certPEM = pem.EncodeToMemory(&pem.Block{Type: "CERTIFICATE", Bytes: der})
		keyPEM = pem.EncodeToMemory(&pem.Block{Type: "EC PRIVATE KEY", Bytes: kb})
	})
	return certPEM, keyPEM
}

// ServerTLSConfig returns an llib tls.Config for the nbhttp server side.
func ServerTLSConfig() *ltls.Config {
	c, k := SelfSigned()
	cert, err := ltls.X509KeyPair(c, k)
	if err != nil {
		panic(err)
	}
	return &ltls.Config{Certificates: []ltls.Certificate{cert}}
}

// ApplyHTTPMode sets the epoll mode fields of an nbhttp.Config.
func ApplyHTTPMode(conf *nbhttp.Config, mode string) {
	switch mode {
	case ModeET:
		conf.EpollMod = nbio.EPOLLET
	case ModeOneshot:
		conf.EpollMod = nbio.EPOLLET
		conf.EPOLLONESHOT = nbio.EPOLLONESHOT
	default:
		conf.EpollMod = nbio.EPOLLLT
	}
}
