package vlib

import (
	"fmt"
	"sort"
	"strconv"
	"strings"

	"pgregory.net/rapid"
)

// HTTPOpts selects the sub-grammar.
type HTTPOpts struct {
	Client bool // responses instead of requests
	Strict bool // only the well-formed subset on which nbio and net/http are documented to agree (C07)
	MaxMsg int
	// Big allows bodies around 64 KiB (slower)
	Big bool
}

// MsgInfo describes one generated message (for classes / non-triviality).
type MsgInfo struct {
	Start, End int
	BodyStart  int
	HasBody    bool
	Chunked    bool
	Trailers   int
	NHeaders   int
	Classes    []string
}

var strictMethods = []string{"GET", "HEAD", "POST", "PUT", "DELETE", "OPTIONS", "PATCH", "TRACE"}
var looseMethods = []string{"GET", "HEAD", "POST", "PUT", "DELETE", "OPTIONS", "PATCH", "TRACE", "CONNECT", "get", "Post", "pUT", "PRI"}

const unreserved = "abcdefghijklmnopqrstuvwxyzABCDEFGHIJKLMNOPQRSTUVWXYZ0123456789-._~"
const tokenOdd = "!#$%&'*+.^_`|~"
const tokenPlain = "abcdefghijklmnopqrstuvwxyzABCDEFGHIJKLMNOPQRSTUVWXYZ0123456789-"

func genFrom(t *rapid.T, alphabet string, min, max int, label string) string {
	n := rapid.IntRange(min, max).Draw(t, label+"_len")
	b := make([]byte, n)
	for i := range b {
		b[i] = alphabet[rapid.IntRange(0, len(alphabet)-1).Draw(t, label)]
	}
	return string(b)
}

func genSeg(t *rapid.T, label string, max int) string {
	n := rapid.IntRange(0, max).Draw(t, label+"_len")
	var sb strings.Builder
	for i := 0; i < n; i++ {
		if rapid.IntRange(0, 11).Draw(t, label+"_pct") == 0 {
			sb.WriteString(fmt.Sprintf("%%%02X", rapid.IntRange(0x20, 0x7e).Draw(t, label+"_hex")))
		} else {
			sb.WriteByte(unreserved[rapid.IntRange(0, len(unreserved)-1).Draw(t, label)])
		}
	}
	return sb.String()
}

func genTarget(t *rapid.T, method string, strict bool) string {
	if method == "OPTIONS" && rapid.IntRange(0, 3).Draw(t, "star") == 0 {
		return "*"
	}
	if !strict && rapid.IntRange(0, 30).Draw(t, "star_any") == 0 {
		return "*"
	}
	maxSeg := 12
	if !strict && rapid.IntRange(0, 15).Draw(t, "longseg") == 0 {
		maxSeg = 300
	}
	var sb strings.Builder
	sb.WriteByte('/')
	nseg := rapid.IntRange(0, 4).Draw(t, "nseg")
	for i := 0; i < nseg; i++ {
		if i > 0 {
			sb.WriteByte('/')
		}
		sb.WriteString(genSeg(t, "seg", maxSeg))
	}
	if rapid.IntRange(0, 2).Draw(t, "hasq") == 0 {
		sb.WriteByte('?')
		nq := rapid.IntRange(1, 3).Draw(t, "nq")
		for i := 0; i < nq; i++ {
			if i > 0 {
				sb.WriteByte('&')
			}
			sb.WriteString(genSeg(t, "qk", 8))
			sb.WriteByte('=')
			sb.WriteString(genSeg(t, "qv", 8))
		}
	}
	return sb.String()
}

func genToken(t *rapid.T, label string) string {
	n := rapid.IntRange(1, 14).Draw(t, label+"_len")
	b := make([]byte, n)
	odd := rapid.IntRange(0, 5).Draw(t, label+"_odd") == 0
	for i := range b {
		if odd && rapid.IntRange(0, 3).Draw(t, label+"_o") == 0 {
			b[i] = tokenOdd[rapid.IntRange(0, len(tokenOdd)-1).Draw(t, label)]
		} else {
			b[i] = tokenPlain[rapid.IntRange(0, len(tokenPlain)-1).Draw(t, label)]
		}
	}
	return string(b)
}

func genWord(t *rapid.T, label string) string {
	n := rapid.IntRange(1, 10).Draw(t, label+"_len")
	b := make([]byte, n)
	for i := range b {
		b[i] = byte(rapid.IntRange(0x21, 0x7e).Draw(t, label))
	}
	return string(b)
}

// genValue: "" | word ((SP|HTAB) word)*
func genValue(t *rapid.T, label string) string {
	if rapid.IntRange(0, 9).Draw(t, label+"_empty") == 0 {
		return ""
	}
	n := rapid.IntRange(1, 5).Draw(t, label+"_words")
	var sb strings.Builder
	for i := 0; i < n; i++ {
		if i > 0 {
			if rapid.IntRange(0, 4).Draw(t, label+"_tab") == 0 {
				sb.WriteByte('\t')
			} else {
				sb.WriteByte(' ')
			}
		}
		sb.WriteString(genWord(t, label))
	}
	return sb.String()
}

func genOWS(t *rapid.T, label string) string {
	switch rapid.IntRange(0, 7).Draw(t, label) {
	case 0:
		return ""
	case 1:
		return "  "
	case 2:
		return " \t"
	case 3:
		return "\t"
	default:
		return " "
	}
}

var reservedNames = map[string]bool{
	"content-length": true, "transfer-encoding": true, "trailer": true, "connection": true, "host": true,
	"upgrade": true, "te": true, "expect": true, "keep-alive": true, "proxy-connection": true, "content-type": true,
}

func genBodyBytes(t *rapid.T, label string, big bool) []byte {
	var n int
	switch rapid.IntRange(0, 9).Draw(t, label+"_cls") {
	case 0:
		n = 1
	case 1, 2, 3, 4:
		n = rapid.IntRange(1, 40).Draw(t, label+"_n")
	case 5, 6:
		n = rapid.IntRange(40, 600).Draw(t, label+"_n")
	case 7:
		n = rapid.IntRange(4000, 4200).Draw(t, label+"_n")
	default:
		if big {
			n = 65536 + rapid.IntRange(-3, 3).Draw(t, label+"_n")
		} else {
			n = rapid.IntRange(1, 2000).Draw(t, label+"_n")
		}
	}
	b := make([]byte, n)
	mode := rapid.IntRange(0, 3).Draw(t, label+"_mode")
	switch mode {
	case 0: // text with CR/LF and chunk-looking content
		pieces := []string{"\r\n", "0\r\n\r\n", "a", "GET / HTTP/1.1\r\n", "\n", "\r", "5\r\nhello\r\n", "x: y\r\n", " "}
		i := 0
		for i < n {
			p := pieces[rapid.IntRange(0, len(pieces)-1).Draw(t, label+"_p")]
			i += copy(b[i:], p)
		}
	case 1:
		seed := byte(rapid.IntRange(0, 255).Draw(t, label+"_seed"))
		for i := range b {
			b[i] = seed + byte(i*7) + byte(i>>8)
		}
	default:
		for i := range b {
			b[i] = byte('a' + (i % 26))
		}
	}
	return b
}

func hexSize(t *rapid.T, n int) string {
	s := strconv.FormatInt(int64(n), 16)
	if rapid.Bool().Draw(t, "hexupper") {
		s = strings.ToUpper(s)
	}
	s = strings.Repeat("0", rapid.SampledFrom([]int{0, 0, 0, 1, 3}).Draw(t, "hexzeros")) + s
	return s
}

// GenMessage renders one message and appends it to sb.
func GenMessage(t *rapid.T, o HTTPOpts, sb *[]byte) MsgInfo {
	mi := MsgInfo{Start: len(*sb)}
	w := func(s string) { *sb = append(*sb, s...) }
	proto11 := rapid.IntRange(0, 3).Draw(t, "proto11") != 0
	proto := "HTTP/1.1"
	if !proto11 {
		proto = "HTTP/1.0"
	}
	sp := func(label string) string {
		if !o.Strict && rapid.IntRange(0, 9).Draw(t, label) == 0 {
			return "  "
		}
		return " "
	}
	method := "GET"
	if !o.Client {
		if o.Strict {
			method = rapid.SampledFrom(strictMethods).Draw(t, "method")
		} else {
			method = rapid.SampledFrom(looseMethods).Draw(t, "method")
		}
		target := genTarget(t, method, o.Strict)
		if method == "CONNECT" && rapid.Bool().Draw(t, "authority") {
			target = "example.com:443"
		}
		if method == "PRI" {
			proto = "HTTP/2.0"
		}
		w(method)
		w(sp("sp1"))
		w(target)
		w(sp("sp2"))
		w(proto)
		if !o.Strict && rapid.IntRange(0, 19).Draw(t, "proto_trail") == 0 {
			w(" ")
		}
		w("\r\n")
	} else {
		codes := []int{200, 201, 202, 203, 206, 301, 302, 400, 403, 404, 418, 500, 502, 503, 504}
		code := rapid.SampledFrom(codes).Draw(t, "code")
		reasons := map[int]string{200: "OK", 201: "Created", 202: "Accepted", 203: "Non-Authoritative Information", 206: "Partial Content",
			301: "Moved Permanently", 302: "Found", 400: "Bad Request", 403: "Forbidden", 404: "Not Found", 418: "I'm a teapot",
			500: "Internal Server Error", 502: "Bad Gateway", 503: "Service Unavailable", 504: "Gateway Timeout"}
		w(proto)
		w(" ")
		w(strconv.Itoa(code))
		w(" ")
		w(reasons[code])
		w("\r\n")
		mi.Classes = append(mi.Classes, "response")
	}

	// framing
	framing := rapid.IntRange(0, 9).Draw(t, "framing")
	var body []byte
	chunked := false
	withCL := false
	switch {
	case framing <= 2:
		// none
	case framing <= 5:
		withCL = true
		if rapid.IntRange(0, 7).Draw(t, "cl0") == 0 {
			body = nil
		} else {
			body = genBodyBytes(t, "body", o.Big)
		}
	default:
		if proto11 || (!o.Strict && rapid.IntRange(0, 3).Draw(t, "chunked10") == 0) {
			chunked = true
			if rapid.IntRange(0, 5).Draw(t, "chunkedcl") == 0 {
				withCL = true
			}
		} else {
			withCL = true
			body = genBodyBytes(t, "body", o.Big)
		}
	}
	if o.Client && !chunked && !withCL {
		// a response without framing is read-until-close: outside both domains; force CL: 0
		withCL = true
	}

	type hdr struct{ k, v string }
	var hs []hdr
	if !o.Client {
		if o.Strict || rapid.IntRange(0, 4).Draw(t, "hashost") != 0 {
			hs = append(hs, hdr{"Host", "example.com"})
		}
	}
	nh := rapid.IntRange(0, 6).Draw(t, "nheaders")
	for i := 0; i < nh; i++ {
		k := genToken(t, "hk")
		if reservedNames[strings.ToLower(k)] {
			k = "X-" + k
		}
		hs = append(hs, hdr{k, genValue(t, "hv")})
	}
	if rapid.IntRange(0, 2).Draw(t, "hasconn") == 0 {
		toks := []string{"close", "keep-alive", "Keep-Alive", "Close", "upgrade", "TE", "foo"}
		var v string
		if rapid.IntRange(0, 2).Draw(t, "connlist") == 0 {
			n := rapid.IntRange(2, 3).Draw(t, "connn")
			var parts []string
			for i := 0; i < n; i++ {
				parts = append(parts, rapid.SampledFrom(toks).Draw(t, "conntok"))
			}
			if rapid.IntRange(0, 2).Draw(t, "connlines") == 0 {
				// the same list spread over several Connection field lines (RFC 7230 3.2.2: equivalent)
				for _, p := range parts[:len(parts)-1] {
					hs = append(hs, hdr{"Connection", p})
				}
				parts = parts[len(parts)-1:]
				mi.Classes = append(mi.Classes, "connection-several-field-lines")
			}
			v = strings.Join(parts, rapid.SampledFrom([]string{", ", ",", " , "}).Draw(t, "connsep"))
			mi.Classes = append(mi.Classes, "connection-list")
		} else {
			v = rapid.SampledFrom(toks).Draw(t, "conntok1")
			mi.Classes = append(mi.Classes, "connection-single")
		}
		hs = append(hs, hdr{"Connection", v})
	}
	var trailerNames []string
	if chunked {
		te := "chunked"
		if rapid.IntRange(0, 5).Draw(t, "te_case") == 0 {
			te = "Chunked"
		}
		hs = append(hs, hdr{"Transfer-Encoding", te})
		if rapid.IntRange(0, 2).Draw(t, "hastrailer") == 0 {
			n := rapid.IntRange(1, 3).Draw(t, "ntrailer")
			seen := map[string]bool{}
			for i := 0; i < n; i++ {
				k := "X-T" + genFrom(t, tokenPlain, 1, 6, "tk")
				lk := strings.ToLower(k)
				if seen[lk] {
					continue
				}
				seen[lk] = true
				trailerNames = append(trailerNames, k)
			}
			hs = append(hs, hdr{"Trailer", strings.Join(trailerNames, rapid.SampledFrom([]string{", ", ","}).Draw(t, "trsep"))})
		}
	}
	var chunks [][]byte
	if chunked {
		nc := rapid.IntRange(0, 4).Draw(t, "nchunks")
		for i := 0; i < nc; i++ {
			c := genBodyBytes(t, "chunk", o.Big && i == 0)
			chunks = append(chunks, c)
			body = append(body, c...)
		}
	}
	if withCL {
		n := len(body)
		if chunked {
			n = rapid.IntRange(0, 50).Draw(t, "bogus_cl")
		}
		cl := strconv.Itoa(n)
		if rapid.IntRange(0, 5).Draw(t, "cl_zeros") == 0 {
			// 1*DIGIT: leading zeros are well-formed and mean the same decimal number
			cl = strings.Repeat("0", rapid.IntRange(1, 3).Draw(t, "cl_nzeros")) + cl
		}
		hs = append(hs, hdr{"Content-Length", cl})
	}
	// shuffle header order (keep it deterministic through rapid)
	if len(hs) > 1 {
		perm := rapid.Permutation(hs).Draw(t, "hperm")
		hs = perm
	}
	for i, h := range hs {
		lead := ""
		if !o.Strict && i > 0 && rapid.IntRange(0, 24).Draw(t, "leadsp") == 0 {
			lead = " "
		}
		pre := ""
		if !o.Strict && rapid.IntRange(0, 24).Draw(t, "precolon") == 0 {
			pre = " "
		}
		w(lead)
		w(h.k)
		w(pre)
		w(":")
		w(genOWS(t, "ows1"))
		w(h.v)
		if h.v != "" {
			w(genOWS(t, "ows2"))
		}
		w("\r\n")
	}
	w("\r\n")
	mi.BodyStart = len(*sb)
	mi.NHeaders = len(hs)
	if chunked {
		mi.Chunked = true
		for _, c := range chunks {
			w(hexSize(t, len(c)))
			if rapid.IntRange(0, 4).Draw(t, "ext") == 0 {
				w(";" + genFrom(t, tokenPlain, 1, 5, "extk"))
				if rapid.Bool().Draw(t, "extv") {
					w("=" + genFrom(t, tokenPlain, 1, 5, "extvv"))
				}
				mi.Classes = append(mi.Classes, "chunk-ext")
			}
			w("\r\n")
			*sb = append(*sb, c...)
			w("\r\n")
		}
		w(strings.Repeat("0", rapid.SampledFrom([]int{1, 1, 1, 2, 3}).Draw(t, "lastzeros")))
		if rapid.IntRange(0, 6).Draw(t, "lastext") == 0 {
			w(";" + genFrom(t, tokenPlain, 1, 5, "lextk"))
		}
		w("\r\n")
		for _, k := range trailerNames {
			v := genValue(t, "tv")
			w(k)
			w(":")
			w(genOWS(t, "tows1"))
			w(v)
			if v != "" {
				w(genOWS(t, "tows2"))
			}
			w("\r\n")
		}
		w("\r\n")
		mi.Trailers = len(trailerNames)
		mi.Classes = append(mi.Classes, "chunked")
		if len(trailerNames) > 0 {
			mi.Classes = append(mi.Classes, "trailers")
		}
		if withCL {
			mi.Classes = append(mi.Classes, "chunked+content-length")
		}
	} else if withCL {
		*sb = append(*sb, body...)
		mi.Classes = append(mi.Classes, "content-length")
	} else {
		mi.Classes = append(mi.Classes, "no-body-framing")
	}
	mi.HasBody = len(body) > 0
	mi.End = len(*sb)
	return mi
}

// GenStream renders 1..MaxMsg pipelined messages.
func GenStream(t *rapid.T, o HTTPOpts) ([]byte, []MsgInfo) {
	max := o.MaxMsg
	if max <= 0 {
		max = 4
	}
	n := rapid.IntRange(1, max).Draw(t, "nmsg")
	var out []byte
	var infos []MsgInfo
	for i := 0; i < n; i++ {
		infos = append(infos, GenMessage(t, o, &out))
	}
	return out, infos
}

// Mutate applies 1..3 byte-level mutations (the "malformed neighbours").
func Mutate(t *rapid.T, b []byte) ([]byte, []string) {
	out := append([]byte(nil), b...)
	var classes []string
	n := rapid.IntRange(1, 3).Draw(t, "nmut")
	for i := 0; i < n && len(out) > 0; i++ {
		pos := rapid.IntRange(0, len(out)-1).Draw(t, "mutpos")
		switch rapid.IntRange(0, 7).Draw(t, "mutkind") {
		case 0:
			out[pos] ^= byte(1 << rapid.IntRange(0, 7).Draw(t, "bit"))
			classes = append(classes, "mut-flip")
		case 1:
			c := byte(rapid.IntRange(0, 255).Draw(t, "insbyte"))
			out = append(out[:pos], append([]byte{c}, out[pos:]...)...)
			classes = append(classes, "mut-insert")
		case 2:
			out = append(out[:pos], out[pos+1:]...)
			classes = append(classes, "mut-delete")
		case 3: // drop a CR or LF near pos
			j := indexAnyFrom(out, pos, "\r\n")
			if j >= 0 {
				out = append(out[:j], out[j+1:]...)
				classes = append(classes, "mut-drop-crlf")
			}
		case 4: // double a CR or LF
			j := indexAnyFrom(out, pos, "\r\n")
			if j >= 0 {
				out = append(out[:j], append([]byte{out[j]}, out[j:]...)...)
				classes = append(classes, "mut-double-crlf")
			}
		case 5:
			out = out[:pos]
			classes = append(classes, "mut-truncate")
		case 6: // duplicate a line
			j := indexAnyFrom(out, pos, "\n")
			if j >= 0 {
				k := j + 1
				e := indexAnyFrom(out, k, "\n")
				if e > k {
					line := append([]byte(nil), out[k:e+1]...)
					out = append(out[:k], append(line, out[k:]...)...)
					classes = append(classes, "mut-dup-line")
				}
			}
		default:
			c := []byte{' ', '\t', ':', ';', '0', 'f', 'g', '-', '+', 0x00, 0x7f, 0x80, 0xff}[rapid.IntRange(0, 12).Draw(t, "repl")]
			out[pos] = c
			classes = append(classes, "mut-replace")
		}
	}
	return out, classes
}

func indexAnyFrom(b []byte, from int, chars string) int {
	for i := from; i < len(b); i++ {
		if strings.IndexByte(chars, b[i]) >= 0 {
			return i
		}
	}
	return -1
}

// GenCuts draws a segmentation of a stream of length n: sorted distinct cut offsets in (0,n).
func GenCuts(t *rapid.T, n int, interesting []int) []int {
	if n <= 1 {
		return nil
	}
	var cuts []int
	switch rapid.IntRange(0, 5).Draw(t, "cutmode") {
	case 0: // one cut
		cuts = []int{rapid.IntRange(1, n-1).Draw(t, "cut")}
	case 1: // byte at a time over a window
		start := rapid.IntRange(0, n-1).Draw(t, "bstart")
		l := rapid.IntRange(1, 200).Draw(t, "blen")
		for i := start + 1; i < n && i <= start+l; i++ {
			cuts = append(cuts, i)
		}
		if start > 0 {
			cuts = append(cuts, start)
		}
	case 2: // every byte (bounded)
		if n <= 1500 {
			for i := 1; i < n; i++ {
				cuts = append(cuts, i)
			}
		} else {
			for i := 1; i < 1500; i++ {
				cuts = append(cuts, i)
			}
		}
	case 3: // at/around interesting positions
		if len(interesting) > 0 {
			k := rapid.IntRange(1, 4).Draw(t, "kint")
			for i := 0; i < k; i++ {
				p := interesting[rapid.IntRange(0, len(interesting)-1).Draw(t, "ipos")] + rapid.IntRange(-1, 1).Draw(t, "idelta")
				if p > 0 && p < n {
					cuts = append(cuts, p)
				}
			}
		} else {
			cuts = []int{rapid.IntRange(1, n-1).Draw(t, "cut")}
		}
	default: // k random cuts
		k := rapid.IntRange(2, 8).Draw(t, "kcuts")
		for i := 0; i < k; i++ {
			cuts = append(cuts, rapid.IntRange(1, n-1).Draw(t, "cut"))
		}
	}
	sort.Ints(cuts)
	out := cuts[:0]
	last := 0
	for _, c := range cuts {
		if c > last && c < n {
			out = append(out, c)
			last = c
		}
	}
	return out
}

// InterestingOffsets lists CR/LF positions (bounded) of a stream.
func InterestingOffsets(b []byte) []int {
	var out []int
	for i, c := range b {
		if c == '\r' || c == '\n' {
			out = append(out, i)
			if len(out) > 400 {
				break
			}
		}
	}
	return out
}

// Split cuts b at the given offsets.
func Split(b []byte, cuts []int) [][]byte {
	var out [][]byte
	last := 0
	for _, c := range cuts {
		if c <= last || c >= len(b) {
			continue
		}
		out = append(out, b[last:c])
		last = c
	}
	out = append(out, b[last:])
	return out
}

// Preview renders bytes for humans (lossy, bounded).
func Preview(b []byte, max int) string {
	if len(b) > max {
		return strconv.Quote(string(b[:max])) + fmt.Sprintf("...(+%d bytes)", len(b)-max)
	}
	return strconv.Quote(string(b))
}
