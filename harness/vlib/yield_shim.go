//go:build verifshim

package vlib

import "github.com/lesismal/nbio"

// YieldAvailable reports whether the build carries the schedule-perturbation instrumentation.
const YieldAvailable = true

// Yield switches the instrumented lock/unlock statements of the library to yield (or sleep 1-50 us) with
// the given probability in 1/1000; the returned function switches it off again.
func Yield(perMille int, seed uint64) func() {
	if perMille <= 0 {
		return func() {}
	}
	nbio.VerifSetYield(perMille, seed)
	return func() { nbio.VerifSetYield(0, 0) }
}
