//go:build verifshim

package vlib

import (
	"github.com/lesismal/nbio"
	"github.com/lesismal/nbio/taskpool"
	"github.com/lesismal/nbio/timer"
)

// YieldAvailable reports whether the build carries the schedule-perturbation instrumentation.
const YieldAvailable = true

// Yield switches the instrumented lock/unlock statements of the library to yield (or sleep 1-50 us) with
// the given probability in 1/1000; the returned function switches it off again.
func Yield(perMille int, seed uint64) func() {
	if perMille <= 0 {
		return func() {}
	}
	nbio.VerifSetYield(perMille, seed)
	timer.VerifSetYield(perMille, seed+1)
	taskpool.VerifSetYield(perMille, seed+2)
	return func() {
		nbio.VerifSetYield(0, 0)
		timer.VerifSetYield(0, 0)
		taskpool.VerifSetYield(0, 0)
	}
}
