package vlib

import (
	"fmt"
	"strings"
	"sync"

	"github.com/lesismal/nbio/logging"
)

// LogCapture records error-level log lines of the library. The library's recover() blocks only
// log ("... failed: <panic>"), so the properties that forbid panics read them from here.
type LogCapture struct {
	mu     sync.Mutex
	errors []string
}

var Logs = &LogCapture{}

func init() { logging.SetLogger(Logs) }

func (l *LogCapture) Debug(format string, v ...interface{}) {}
func (l *LogCapture) Info(format string, v ...interface{})  {}
func (l *LogCapture) Warn(format string, v ...interface{})  {}
func (l *LogCapture) Error(format string, v ...interface{}) {
	s := fmt.Sprintf(format, v...)
	l.mu.Lock()
	if len(l.errors) < 1000 {
		l.errors = append(l.errors, s)
	}
	l.mu.Unlock()
}

// Take returns and clears the captured error lines.
func (l *LogCapture) Take() []string {
	l.mu.Lock()
	e := l.errors
	l.errors = nil
	l.mu.Unlock()
	return e
}

// Panics filters the lines that stem from a recovered panic.
func Panics(lines []string) []string {
	var out []string
	for _, s := range lines {
		if strings.Contains(s, "failed:") && (strings.Contains(s, "goroutine ") || strings.Contains(s, "runtime error") || strings.Contains(s, "panic")) {
			if len(s) > 1200 {
				s = s[:1200] + "..."
			}
			out = append(out, s)
		}
	}
	return out
}
