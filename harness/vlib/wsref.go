package vlib

import (
	"bytes"
	"compress/flate"
	"encoding/binary"
	"fmt"
	"io"
	"unicode/utf8"
)

// Reference RFC 6455 codec and receive automaton, independent of the library under test.

const (
	OpCont  = 0
	OpText  = 1
	OpBin   = 2
	OpClose = 8
	OpPing  = 9
	OpPong  = 10
)

type WSFrame struct {
	Fin     bool   `json:"fin"`
	R1      bool   `json:"rsv1,omitempty"`
	R2      bool   `json:"rsv2,omitempty"`
	R3      bool   `json:"rsv3,omitempty"`
	Op      int    `json:"op"`
	Masked  bool   `json:"masked,omitempty"`
	Key     uint32 `json:"key,omitempty"`
	LenEnc  int    `json:"len_enc,omitempty"` // 0 minimal, 1 force 16-bit, 2 force 64-bit
	TopBit  bool   `json:"top_bit,omitempty"` // 64-bit length with the most significant bit set
	Payload []byte `json:"payload,omitempty"`
}

// Encode renders the frame.
func (f WSFrame) Encode() []byte {
	var b []byte
	b0 := byte(f.Op & 0xF)
	if f.Fin {
		b0 |= 0x80
	}
	if f.R1 {
		b0 |= 0x40
	}
	if f.R2 {
		b0 |= 0x20
	}
	if f.R3 {
		b0 |= 0x10
	}
	b = append(b, b0)
	n := len(f.Payload)
	mb := byte(0)
	if f.Masked {
		mb = 0x80
	}
	enc := f.LenEnc
	if f.TopBit {
		enc = 2
	}
	switch {
	case enc == 2 || n > 65535:
		b = append(b, mb|127)
		var l [8]byte
		binary.BigEndian.PutUint64(l[:], uint64(n))
		if f.TopBit {
			l[0] |= 0x80
		}
		b = append(b, l[:]...)
	case enc == 1 || n > 125:
		b = append(b, mb|126)
		var l [2]byte
		binary.BigEndian.PutUint16(l[:], uint16(n))
		b = append(b, l[:]...)
	default:
		b = append(b, mb|byte(n))
	}
	if f.Masked {
		var k [4]byte
		binary.BigEndian.PutUint32(k[:], f.Key)
		b = append(b, k[:]...)
		p := make([]byte, n)
		for i := range p {
			p[i] = f.Payload[i] ^ k[i&3]
		}
		b = append(b, p...)
	} else {
		b = append(b, f.Payload...)
	}
	return b
}

// DecodeWSFrames decodes as many complete frames as b holds (payloads unmasked).
func DecodeWSFrames(b []byte) (frames []WSFrame, rest []byte, err error) {
	for len(b) >= 2 {
		f := WSFrame{Fin: b[0]&0x80 != 0, R1: b[0]&0x40 != 0, R2: b[0]&0x20 != 0, R3: b[0]&0x10 != 0, Op: int(b[0] & 0xF), Masked: b[1]&0x80 != 0}
		l7 := int(b[1] & 0x7F)
		off := 2
		var n uint64
		switch l7 {
		case 126:
			if len(b) < 4 {
				return frames, b, nil
			}
			n = uint64(binary.BigEndian.Uint16(b[2:4]))
			off = 4
			f.LenEnc = 1
			if n <= 125 {
				err = fmt.Errorf("non-minimal 16-bit length %d", n)
			}
		case 127:
			if len(b) < 10 {
				return frames, b, nil
			}
			n = binary.BigEndian.Uint64(b[2:10])
			off = 10
			f.LenEnc = 2
			if n>>63 != 0 {
				return frames, b, fmt.Errorf("64-bit length with the top bit set")
			}
			if n <= 65535 {
				err = fmt.Errorf("non-minimal 64-bit length %d", n)
			}
		default:
			n = uint64(l7)
		}
		var key [4]byte
		if f.Masked {
			if len(b) < off+4 {
				return frames, b, nil
			}
			copy(key[:], b[off:off+4])
			f.Key = binary.BigEndian.Uint32(key[:])
			off += 4
		}
		if uint64(len(b)-off) < n {
			return frames, b, err
		}
		p := make([]byte, n)
		copy(p, b[off:off+int(n)])
		if f.Masked {
			for i := range p {
				p[i] ^= key[i&3]
			}
		}
		f.Payload = p
		frames = append(frames, f)
		b = b[off+int(n):]
		if err != nil {
			return frames, b, err
		}
	}
	return frames, b, nil
}

const FlateTail = "\x00\x00\xff\xff\x01\x00\x00\xff\xff"

// Inflate decompresses a permessage-deflate payload with the standard library.
func Inflate(payload []byte, limit int) ([]byte, error) {
	r := flate.NewReader(io.MultiReader(bytes.NewReader(payload), bytes.NewReader([]byte(FlateTail))))
	defer r.Close()
	if limit > 0 {
		out, err := io.ReadAll(io.LimitReader(r, int64(limit)+1))
		return out, err
	}
	return io.ReadAll(r)
}

// Deflate compresses a message the RFC 7692 way (raw deflate, sync flush, 4-byte tail removed).
func Deflate(msg []byte, level int) []byte {
	var buf bytes.Buffer
	w, _ := flate.NewWriter(&buf, level)
	w.Write(msg)
	w.Flush()
	b := buf.Bytes()
	if len(b) >= 4 && bytes.Equal(b[len(b)-4:], []byte{0, 0, 0xff, 0xff}) {
		b = b[:len(b)-4]
	}
	return append([]byte(nil), b...)
}

type WSMsg struct {
	Op      int
	Payload []byte
}

// CloseCodeClass: 1 must-accept, -1 must-reject, 0 open.
func CloseCodeClass(code int) int {
	switch {
	case code < 1000:
		return -1
	case code >= 1000 && code <= 1003:
		return 1
	case code >= 1004 && code <= 1006:
		return -1
	case code >= 1007 && code <= 1011:
		return 1
	case code >= 1012 && code <= 1014:
		return 0
	case code == 1015:
		return -1
	case code >= 1016 && code <= 2999:
		return -1
	case code >= 3000 && code <= 4999:
		return 1
	default:
		return -1
	}
}

// WSModel is the reference receive automaton (DESIGN.md Appendix B).
type WSModel struct {
	Compression bool
	Limit       int // message length limit (0 = none); used by C15 only

	frag       int
	buf        []byte
	compressed bool

	Failed     bool
	FailReason string
	Closed     bool // a legal close frame was received
	Open       bool // outcome left open by the RFC/statement (nothing asserted from here on)
	Delivered  []WSMsg
	OwedPongs  [][]byte
	OwedClose  bool
	CloseCode  int
	CloseText  string
	TooBig     bool
}

func (m *WSModel) fail(why string) {
	if !m.Failed {
		m.Failed = true
		m.FailReason = why
	}
}

// Step feeds one frame. It returns false when the automaton has terminated (failed/closed).
func (m *WSModel) Step(f WSFrame) bool {
	if m.Failed || m.Closed || m.Open {
		return false
	}
	if f.TopBit {
		m.fail("64-bit length with the top bit set")
		return false
	}
	if f.R2 || f.R3 {
		m.fail("RSV2/RSV3 set")
		return false
	}
	if f.R1 && !m.Compression {
		m.fail("RSV1 without negotiated compression")
		return false
	}
	if (f.Op >= 3 && f.Op <= 7) || f.Op >= 0xB {
		m.fail(fmt.Sprintf("reserved opcode %d", f.Op))
		return false
	}
	if f.Op >= 8 {
		if f.R1 {
			m.Open = true // RSV1 on a control frame with compression negotiated: left open
			return false
		}
		if !f.Fin {
			m.fail("fragmented control frame")
			return false
		}
		if len(f.Payload) > 125 {
			m.fail("control frame payload > 125")
			return false
		}
		switch f.Op {
		case OpPing:
			m.OwedPongs = append(m.OwedPongs, append([]byte(nil), f.Payload...))
		case OpPong:
		case OpClose:
			switch {
			case len(f.Payload) == 0:
				m.Closed, m.OwedClose, m.CloseCode = true, true, 1005
			case len(f.Payload) == 1:
				m.fail("close payload of length 1")
			default:
				code := int(binary.BigEndian.Uint16(f.Payload[:2]))
				switch CloseCodeClass(code) {
				case -1:
					m.fail(fmt.Sprintf("illegal close code %d", code))
				case 0:
					m.Open = true
				default:
					if !utf8.Valid(f.Payload[2:]) {
						m.fail("close reason is not valid UTF-8")
					} else {
						m.Closed, m.OwedClose, m.CloseCode, m.CloseText = true, true, code, string(f.Payload[2:])
					}
				}
			}
			return false
		}
		return true
	}
	// data frames
	switch f.Op {
	case OpText, OpBin:
		if m.frag != 0 {
			m.fail("new data frame inside a fragmented message")
			return false
		}
		m.frag = f.Op
		m.compressed = f.R1
		m.buf = m.buf[:0]
	case OpCont:
		if m.frag == 0 {
			m.fail("continuation without a start")
			return false
		}
		if f.R1 {
			m.Open = true // RSV1 on a continuation: left open
			return false
		}
	}
	m.buf = append(m.buf, f.Payload...)
	if m.Limit > 0 && !m.compressed && len(m.buf) > m.Limit {
		m.TooBig = true
		m.fail("message larger than the limit")
		return false
	}
	if f.Fin {
		payload := append([]byte(nil), m.buf...)
		if m.compressed {
			out, err := Inflate(payload, m.Limit)
			if m.Limit > 0 && len(out) > m.Limit {
				m.TooBig = true
				m.fail("inflated message larger than the limit")
				return false
			}
			if err != nil {
				m.fail("payload does not inflate: " + err.Error())
				return false
			}
			payload = out
		}
		if m.frag == OpText && !utf8.Valid(payload) {
			m.fail("text message is not valid UTF-8")
			return false
		}
		m.Delivered = append(m.Delivered, WSMsg{Op: m.frag, Payload: payload})
		m.frag = 0
		m.buf = m.buf[:0]
	}
	return true
}

// GenPayload builds deterministic message content of exactly n bytes.
// kind: "ascii", "utf8" (valid multi-byte UTF-8), "random" (incompressible bytes), "zeros", "pattern".
func GenPayload(kind string, n int, seed uint32) []byte {
	b := make([]byte, 0, n)
	switch kind {
	case "utf8":
		runes := []string{"é", "世", "😀", "a", "ß", "界", "z"}
		i := int(seed)
		for len(b) < n {
			r := runes[i%len(runes)]
			i++
			if len(b)+len(r) > n {
				r = "x"
			}
			b = append(b, r...)
		}
	case "random":
		x := seed*2654435761 + 1
		for len(b) < n {
			x ^= x << 13
			x ^= x >> 17
			x ^= x << 5
			b = append(b, byte(x), byte(x>>8), byte(x>>16), byte(x>>24))
		}
		b = b[:n]
	case "zeros":
		b = b[:n]
	case "pattern":
		for len(b) < n {
			b = append(b, fmt.Sprintf("the quick brown fox %d jumps over the lazy dog; ", seed%7)...)
		}
		b = b[:n]
	default: // ascii
		for i := 0; i < n; i++ {
			b = append(b, byte('a'+(i+int(seed))%26))
		}
	}
	return b
}
