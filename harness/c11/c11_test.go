package c11

import (
	"bufio"
	"bytes"
	"fmt"
	"io"
	"net"
	"net/http"
	"os"
	"reflect"
	"strings"
	"testing"
	"time"
	"unsafe"

	"verifharness/c09"
	"verifharness/c13"
	"verifharness/vlib"

	"github.com/lesismal/nbio"
	"github.com/lesismal/nbio/nbhttp"
	"github.com/lesismal/nbio/nbhttp/websocket"
	"pgregory.net/rapid"
)

var inline = func(f func()) { f() }

// the tracker is installed as mempool.DefaultMemPool by package c09's init
var tracker = c09.Tracker

// ---------- workload 1: response writer programs with failing writes ----------

func runResp(c c09.Case) vlib.Result {
	return vlib.WithWatchdog(60*time.Second, "the response writer", func() vlib.Result {
		tracker.Reset()
		res := vlib.Result{Classes: []string{"workload=http-response"}}
		_, _, ex, pn := c09.Execute(c, tracker)
		if c.FailAt > 0 {
			res.Classes = append(res.Classes, "write-failure-injected")
		}
		if ex.BodyLen() >= 65536 {
			res.Classes = append(res.Classes, "threshold-crossing")
		}
		_ = pn // a panic on the error path is C09's subject; ownership violations are reported below
		vlib.Logs.Take()
		if v := tracker.Finish(); len(v) > 0 {
			res.Err = fmt.Errorf("%s", v[0])
			return res
		}
		res.NonTrivial = tracker.FreedCount() > 0 && (c.FailAt > 0 || ex.BodyLen() >= 65536)
		return res
	})
}

func genResp(t *rapid.T) c09.Case {
	c := c09.Gen(t)
	if rapid.IntRange(0, 2).Draw(t, "inject") > 0 {
		c.FailAt = rapid.IntRange(1, 6).Draw(t, "failat")
	}
	return c
}

// ---------- workload 2: HTTP parsing ----------

type ParseCase struct {
	Client   bool   `json:"client"`
	Stream   []byte `json:"stream"`
	Cuts     []int  `json:"cuts,omitempty"`
	ReadBody int    `json:"read_body"` // 0 none, 1 partial, 2 all
	StopAt   int    `json:"stop_at"`   // close after this many segments (-1 = feed everything)
	Retain   bool   `json:"retain_body"`
	Mutated  bool   `json:"mutated"`
}

func runParse(c ParseCase) vlib.Result {
	return vlib.WithWatchdog(60*time.Second, "the HTTP parser", func() vlib.Result {
		tracker.Reset()
		res := vlib.Result{Classes: []string{"workload=http-parse"}}
		conn := &vlib.FakeConn{}
		conf := nbhttp.Config{ServerExecutor: inline, ClientExecutor: inline, SupportServerOnly: true, BodyAllocator: tracker, RetainHTTPBody: c.Retain}
		var seen []byte // everything the handlers observed (read after free shows up as poison here)
		readBody := func(r io.Reader) {
			switch c.ReadBody {
			case 1:
				buf := make([]byte, 7)
				n, _ := r.Read(buf)
				seen = append(seen, buf[:n]...)
			case 2:
				b, _ := io.ReadAll(r)
				seen = append(seen, b...)
			}
		}
		observe := func(h http.Header, extra ...string) {
			for k, vv := range h {
				seen = append(seen, k...)
				for _, v := range vv {
					seen = append(seen, v...)
				}
			}
			for _, e := range extra {
				seen = append(seen, e...)
			}
		}
		var engine *nbhttp.Engine
		var proc nbhttp.Processor
		if !c.Client {
			conf.Handler = http.HandlerFunc(func(w http.ResponseWriter, r *http.Request) {
				observe(r.Header, r.Method, r.RequestURI, r.Proto)
				observe(r.Trailer)
				readBody(r.Body)
				_, _ = w.Write([]byte("ok"))
			})
			engine = nbhttp.NewEngine(conf)
			proc = nbhttp.NewServerProcessor()
		} else {
			engine = nbhttp.NewEngine(conf)
			proc = nbhttp.NewClientProcessor(&nbhttp.ClientConn{Engine: engine}, func(r *http.Response, err error) {
				if r != nil {
					observe(r.Header, r.Status, r.Proto)
					if r.Body != nil {
						readBody(r.Body)
					}
				}
			})
		}
		p := nbhttp.NewParser(conn, engine, proc, c.Client, nil)
		var perr error
		segs := vlib.Split(c.Stream, c.Cuts)
		_ = seen
		fed := 0
		func() {
			defer func() { _ = recover() }()
			for i, s := range segs {
				if c.StopAt >= 0 && i >= c.StopAt {
					break
				}
				fed++
				if perr = p.Parse(append([]byte(nil), s...)); perr != nil {
					break
				}
			}
		}()
		p.CloseAndClean(perr)
		p.CloseAndClean(perr) // close is idempotent
		vlib.Logs.Take()
		if perr != nil {
			res.Classes = append(res.Classes, "parse-error")
		}
		if fed < len(segs) && perr == nil {
			res.Classes = append(res.Classes, "closed-mid-stream")
		}
		if v := tracker.Finish(); len(v) > 0 {
			res.Err = fmt.Errorf("%s", v[0])
			return res
		}
		if vlib.ContainsPoison(seen, 3) && !vlib.ContainsPoison(c.Stream, 3) {
			res.Err = fmt.Errorf("read after free: the handlers observed freed-buffer poison (0xDD) in parsed data although the input contains none: %s", vlib.Preview(seen, 200))
			return res
		}
		res.NonTrivial = tracker.FreedCount() > 0 && (perr != nil || fed < len(segs))
		return res
	})
}

func genParse(t *rapid.T) ParseCase {
	c := ParseCase{Client: rapid.IntRange(0, 2).Draw(t, "client") == 0, ReadBody: rapid.IntRange(0, 2).Draw(t, "readbody"), Retain: rapid.IntRange(0, 4).Draw(t, "retain") == 0}
	big := rapid.IntRange(0, 20).Draw(t, "big") == 0
	stream, _ := vlib.GenStream(t, vlib.HTTPOpts{Client: c.Client, MaxMsg: 3, Big: big})
	if rapid.IntRange(0, 2).Draw(t, "mutate") == 0 {
		stream, _ = vlib.Mutate(t, stream)
		c.Mutated = true
	}
	if len(stream) == 0 {
		stream = []byte("G")
	}
	c.Stream = stream
	c.Cuts = vlib.GenCuts(t, len(stream), vlib.InterestingOffsets(stream))
	c.StopAt = -1
	if rapid.IntRange(0, 2).Draw(t, "stop") == 0 {
		c.StopAt = rapid.IntRange(0, len(c.Cuts)+1).Draw(t, "stopat")
	}
	return c
}

// ---------- workload 3: WebSocket ----------

type WSCase struct {
	Seq           c13.Case `json:"seq"`
	Release       bool     `json:"release_payload"`
	UserFree      bool     `json:"user_frees_payload"`
	DataFrames    bool     `json:"data_frame_handler"`
	StopAt        int      `json:"stop_at"`       // close after this many segments (-1 = all)
	WriteSizes    []int    `json:"write_sizes"`   // messages written back from inside OnMessage
	FailWriteAt   int      `json:"fail_write_at"` // k-th conn write fails (0 never)
	WriteCompress bool     `json:"write_compress"`
	Limit         int      `json:"limit"`
	// AsyncWrite: the connection uses the asynchronous send queue of blocking-mode connections (frames are
	// queued and written by a sender goroutine). BlockWriteAt > 0: that socket write hangs (peer not
	// reading) until after the connection has been closed and cleaned, so that the close meets in-flight
	// and queued frames.
	AsyncWrite   bool `json:"async_write,omitempty"`
	BlockWriteAt int  `json:"block_write_at,omitempty"`
}

func setBool(obj any, field string, v bool) bool {
	f := reflect.ValueOf(obj).Elem().FieldByName(field)
	if !f.IsValid() || f.Kind() != reflect.Bool {
		return false
	}
	reflect.NewAt(f.Type(), unsafe.Pointer(f.UnsafeAddr())).Elem().SetBool(v)
	return true
}

func runWS(c WSCase) vlib.Result {
	return vlib.WithWatchdog(60*time.Second, "the WebSocket connection", func() vlib.Result {
		tracker.Reset()
		res := vlib.Result{Classes: []string{"workload=websocket"}}
		conn := &vlib.FakeConn{FailAt: c.FailWriteAt}
		if c.AsyncWrite && c.BlockWriteAt > 0 {
			conn.ArmBlock(c.BlockWriteAt)
		}
		engine := nbhttp.NewEngine(nbhttp.Config{ServerExecutor: inline, ClientExecutor: inline, SupportServerOnly: true, BodyAllocator: tracker, MaxWebsocketFramePayloadSize: 1000})
		u := websocket.NewUpgrader()
		u.Engine = engine
		u.KeepaliveTime = 0
		u.MessageLengthLimit = c.Limit
		u.EnableCompression(c.Seq.Compression)
		wi := 0
		u.OnMessagePtr(func(wc *websocket.Conn, mt websocket.MessageType, p *[]byte) {
			if wi < len(c.WriteSizes) {
				_ = wc.WriteMessage(websocket.BinaryMessage, vlib.GenPayload("pattern", c.WriteSizes[wi], uint32(wi)))
				wi++
			}
			if c.UserFree && !c.Release && p != nil {
				engine.BodyAllocator.Free(p)
			}
		})
		if c.DataFrames {
			u.OnDataFramePtr(func(wc *websocket.Conn, mt websocket.MessageType, fin bool, p *[]byte) {
				if c.UserFree && !c.Release && p != nil {
					engine.BodyAllocator.Free(p)
				}
			})
		}
		var wsc *websocket.Conn
		if c.Seq.ReceiverClient {
			wsc = websocket.NewClientConn(u, conn, "", c.Seq.Compression, c.AsyncWrite)
		} else {
			wsc = websocket.NewServerConn(u, conn, "", c.Seq.Compression, c.AsyncWrite)
		}
		if c.Release {
			if !setBool(wsc, "releasePayload", true) {
				res.Classes = append(res.Classes, "release-payload-not-settable")
			}
		}
		wsc.EnableWriteCompression(c.WriteCompress)
		wsc.Execute = func(f func()) bool {
			if conn.IsClosed() {
				return false
			}
			f()
			return true
		}
		var wire []byte
		for _, f := range c.Seq.Frames {
			wire = append(wire, f.Encode()...)
		}
		var segs [][]byte
		if c.Seq.ByteAtATime {
			for i := range wire {
				segs = append(segs, wire[i:i+1])
			}
		} else {
			segs = vlib.Split(wire, c.Seq.Cuts)
		}
		var perr error
		fed := 0
		for i, s := range segs {
			if c.StopAt >= 0 && i >= c.StopAt {
				break
			}
			if conn.IsClosed() {
				break
			}
			fed++
			if perr = wsc.Parse(append([]byte(nil), s...)); perr != nil {
				break
			}
		}
		if c.AsyncWrite && conn.Blocked == nil {
			// let the sender goroutine drain what was queued before the connection is closed
			time.Sleep(200 * time.Microsecond)
		}
		wsc.CloseAndClean(perr)
		wsc.CloseAndClean(perr)
		if conn.Blocked != nil {
			select {
			case <-conn.Blocked:
				// the sender goroutine was inside a socket write while the connection was closed and cleaned:
				// let the write return now and give the sender time to finish with its buffer
				res.Classes = append(res.Classes, "close-while-sender-blocked-in-write")
				close(conn.Gate)
				select {
				case <-conn.Returned:
				case <-time.After(5 * time.Second):
				}
				time.Sleep(300 * time.Microsecond)
			default:
				close(conn.Gate) // never reached that write
			}
		}
		vlib.Logs.Take()
		if perr != nil || conn.IsClosed() {
			res.Classes = append(res.Classes, "failed-or-closed")
		}
		if c.Release {
			res.Classes = append(res.Classes, "release-payload")
		}
		if v := tracker.Finish(); len(v) > 0 {
			res.Err = fmt.Errorf("%s", v[0])
			return res
		}
		res.NonTrivial = tracker.FreedCount() > 0 && (perr != nil || fed < len(segs) || c.FailWriteAt > 0 || c.Seq.Violation != "")
		return res
	})
}

func genWS(t *rapid.T) WSCase {
	c := WSCase{Seq: c13.Gen(t)}
	c.Release = rapid.Bool().Draw(t, "release")
	c.UserFree = rapid.Bool().Draw(t, "userfree")
	c.DataFrames = rapid.IntRange(0, 2).Draw(t, "dataframes") == 0
	c.StopAt = -1
	if rapid.IntRange(0, 3).Draw(t, "stop") == 0 {
		c.StopAt = rapid.IntRange(0, 20).Draw(t, "stopat")
	}
	n := rapid.IntRange(0, 3).Draw(t, "nwrites")
	for i := 0; i < n; i++ {
		c.WriteSizes = append(c.WriteSizes, rapid.SampledFrom([]int{0, 1, 125, 126, 999, 1000, 1001, 2500, 70000}).Draw(t, "wsize"))
	}
	if rapid.IntRange(0, 2).Draw(t, "failw") == 0 {
		c.FailWriteAt = rapid.IntRange(1, 5).Draw(t, "failwat")
	}
	c.WriteCompress = rapid.Bool().Draw(t, "wcompress")
	if rapid.IntRange(0, 2).Draw(t, "asyncwrite") == 0 {
		c.AsyncWrite = true
		if rapid.IntRange(0, 3).Draw(t, "blockwrite") > 0 {
			c.BlockWriteAt = rapid.IntRange(1, 3).Draw(t, "blockat")
			c.FailWriteAt = 0
			for len(c.WriteSizes) < 3 {
				c.WriteSizes = append(c.WriteSizes, rapid.SampledFrom([]int{1, 126, 1001, 2500}).Draw(t, "wsize2"))
			}
		}
	}
	c.Limit = rapid.SampledFrom([]int{0, 5, 20, 60, 100000}).Draw(t, "limit")
	// sometimes corrupt one compressed payload so that inflating fails
	if rapid.IntRange(0, 3).Draw(t, "corrupt") == 0 {
		for i := range c.Seq.Frames {
			f := &c.Seq.Frames[i]
			if f.R1 && len(f.Payload) > 0 {
				f.Payload = append([]byte(nil), f.Payload...)
				f.Payload[rapid.IntRange(0, len(f.Payload)-1).Draw(t, "corruptpos")] ^= 0xFF
				c.Seq.Violation = "corrupt-deflate"
				break
			}
		}
	}
	return c
}

// ---------- workload 4: protocol switch (upgrade) hand-over inside the HTTP parser ----------

// HandoverCase: a server-side parser receives 0-2 ordinary requests, then a request whose handler
// switches the connection to another protocol by installing a ParserCloser (what the WebSocket upgrader
// does on parser-driven connections), followed by Tail bytes of the new protocol; everything arrives
// cut at arbitrary positions. The bytes after the upgrade request belong to the new protocol: they must
// reach its Parse exactly once, in order, unaltered - whether they were sitting in the parser's pooled
// cache or in the caller's read buffer.
type HandoverCase struct {
	Before   []byte `json:"before"` // ordinary requests in front
	Upgrade  []byte `json:"upgrade"`
	Tail     []byte `json:"tail"`
	Cuts     []int  `json:"cuts,omitempty"`
	StopAt   int    `json:"stop_at"`
	ReadBody int    `json:"read_body"`
}

type protoRecorder struct {
	got    []byte
	closed int
	conn   *vlib.FakeConn
}

func (r *protoRecorder) UnderlayerConn() net.Conn { return r.conn }
func (r *protoRecorder) Parse(data []byte) error  { r.got = append(r.got, data...); return nil }
func (r *protoRecorder) CloseAndClean(err error)  { r.closed++ }

func runHandover(c HandoverCase) vlib.Result {
	return vlib.WithWatchdog(60*time.Second, "the HTTP parser (protocol switch)", func() vlib.Result {
		tracker.Reset()
		res := vlib.Result{Classes: []string{"workload=upgrade-handover"}}
		conn := &vlib.FakeConn{}
		rec := &protoRecorder{conn: conn}
		var p *nbhttp.Parser
		conf := nbhttp.Config{ServerExecutor: inline, ClientExecutor: inline, SupportServerOnly: true, BodyAllocator: tracker}
		conf.Handler = http.HandlerFunc(func(w http.ResponseWriter, r *http.Request) {
			switch c.ReadBody {
			case 1:
				buf := make([]byte, 7)
				_, _ = r.Body.Read(buf)
			case 2:
				_, _ = io.ReadAll(r.Body)
			}
			if r.Header.Get("Upgrade") != "" {
				p.ParserCloser = rec // from now on the connection speaks another protocol
				return
			}
			_, _ = w.Write([]byte("ok"))
		})
		engine := nbhttp.NewEngine(conf)
		if len(c.Before) > 0 {
			// the requests in front must be acceptable on their own (the generator also produces lenient
			// forms that this parser refuses): otherwise the case says nothing about the hand-over
			p = nbhttp.NewParser(&vlib.FakeConn{}, engine, nbhttp.NewServerProcessor(), false, nil)
			err := p.Parse(append([]byte(nil), c.Before...))
			p.CloseAndClean(err)
			vlib.Logs.Take()
			tracker.Reset()
			if err != nil {
				res.Classes = append(res.Classes, "requests-in-front-refused (skipped)")
				return res
			}
		}
		p = nbhttp.NewParser(conn, engine, nbhttp.NewServerProcessor(), false, nil)
		stream := append(append(append([]byte(nil), c.Before...), c.Upgrade...), c.Tail...)
		segs := vlib.Split(stream, c.Cuts)
		var perr error
		fed, fedBytes := 0, 0
		for i, sg := range segs {
			if c.StopAt >= 0 && i >= c.StopAt {
				break
			}
			fed++
			fedBytes += len(sg)
			if perr = p.Parse(append([]byte(nil), sg...)); perr != nil {
				break
			}
		}
		p.CloseAndClean(perr)
		vlib.Logs.Take()
		if perr != nil {
			res.Err = fmt.Errorf("valid requests followed by a protocol switch: Parse returned %v after %d of %d segments", perr, fed, len(segs))
			return res
		}
		// what the new protocol must have received: the part of the tail that was fed
		wantLen := fedBytes - len(c.Before) - len(c.Upgrade)
		if wantLen < 0 {
			wantLen = 0
		}
		want := c.Tail[:wantLen]
		if !bytes.Equal(rec.got, want) {
			what := "lost, duplicated or altered"
			if vlib.ContainsPoison(rec.got, 3) {
				what = "read after free: it contains freed-buffer poison (0xDD)"
			}
			res.Err = fmt.Errorf("after the protocol switch the new protocol received %d bytes, %d were sent behind the upgrade request; %s: got %s want %s (cuts %v)", len(rec.got), len(want), what, vlib.Preview(rec.got, 80), vlib.Preview(want, 80), c.Cuts)
			return res
		}
		if v := tracker.Finish(); len(v) > 0 {
			res.Err = fmt.Errorf("%s", v[0])
			return res
		}
		if wantLen > 0 {
			res.Classes = append(res.Classes, "bytes-handed-over")
			// non-trivial: some hand-over bytes arrived in the same read as the end of the upgrade request
			end := len(c.Before) + len(c.Upgrade)
			glued := true
			for _, cut := range c.Cuts {
				if cut == end {
					glued = false
				}
			}
			if glued {
				res.Classes = append(res.Classes, "tail-glued-to-request-end")
				res.NonTrivial = true
			}
		}
		return res
	})
}

func genHandover(t *rapid.T) HandoverCase {
	var c HandoverCase
	if rapid.Bool().Draw(t, "before") {
		c.Before, _ = vlib.GenStream(t, vlib.HTTPOpts{MaxMsg: 2, Strict: true})
	}
	// the upgrade request: a GET with a drawn number of extra headers (so that its size varies)
	var sb strings.Builder
	sb.WriteString("GET /chat HTTP/1.1\r\nHost: example.com\r\nUpgrade: websocket\r\nConnection: Upgrade\r\n")
	nh := rapid.IntRange(0, 6).Draw(t, "nheaders")
	for i := 0; i < nh; i++ {
		fmt.Fprintf(&sb, "X-H%d: %s\r\n", i, strings.Repeat("v", rapid.SampledFrom([]int{1, 10, 100, 1000}).Draw(t, "hlen")))
	}
	sb.WriteString("\r\n")
	c.Upgrade = []byte(sb.String())
	c.Tail = vlib.FillTagged(1, 0, rapid.SampledFrom([]int{0, 1, 6, 65, 200, 5000}).Draw(t, "taillen"))
	total := len(c.Before) + len(c.Upgrade) + len(c.Tail)
	interesting := []int{len(c.Before), len(c.Before) + len(c.Upgrade), len(c.Before) + len(c.Upgrade) - 1, len(c.Before) + len(c.Upgrade) + 1, len(c.Before) + len(c.Upgrade) - 2}
	c.Cuts = vlib.GenCuts(t, total, interesting)
	c.StopAt = -1
	if rapid.IntRange(0, 3).Draw(t, "stop") == 0 {
		c.StopAt = rapid.IntRange(0, len(c.Cuts)+1).Draw(t, "stopat")
	}
	c.ReadBody = rapid.IntRange(0, 2).Draw(t, "readbody")
	return c
}

func TestCheck(t *testing.T) {
	r := vlib.NewRunner(t, "C11")
	// the tracking allocator behaves like the library's size-aligned allocator here: a buffer that has to move
	// gets a new pointer object, the old one is retired (a caller that drops the returned pointer is a
	// use-after-free with that allocator)
	tracker.MovePointer = true
	vlib.RunCheck(r, vlib.Check[c09.Case]{Name: "http-response", N: r.Pick(25000, 400000), Gen: genResp, Run: runResp})
	vlib.RunCheck(r, vlib.Check[ParseCase]{Name: "http-parse", N: r.Pick(25000, 400000), Gen: genParse, Run: runParse})
	vlib.RunCheck(r, vlib.Check[WSCase]{Name: "websocket", N: r.Pick(25000, 400000), Gen: genWS, Run: runWS})
	vlib.RunCheck(r, vlib.Check[HandoverCase]{Name: "upgrade-handover", N: r.Pick(15000, 300000), Gen: genHandover, Run: runHandover})
	vlib.RunCheck(r, vlib.Check[UpgradeCase]{Name: "upgrade-response", N: r.Pick(8000, 150000), Gen: genUpgrade, Run: runUpgrade})
	vlib.RunCheck(r, vlib.Check[ConnCase]{Name: "conn-write-queue", N: r.Pick(2400, 60000), Gen: genConn, Run: runConn, RecordCurrent: true})
	r.Finish()
}

// ---------- workload 5: the core connection's write queue ----------

// ConnCase: a real connection of the core engine whose pooled write buffers come from the tracking
// allocator. Programs of Write / Writev / Sendfile with a peer that reads in steps build backlogs, drain
// them partly or completely, queue files behind buffers and buffers behind files, and end with a close in
// the middle of it or after a complete drain.
type ConnOp struct {
	K string `json:"k"` // write, writev, sendfile, peer-read, pause, close
	N int    `json:"n"`
}

type ConnCase struct {
	Transport string   `json:"transport"`
	Mode      string   `json:"mode"`
	Ops       []ConnOp `json:"ops"`
	DrainEnd  bool     `json:"drain_before_close"`
}

func runConn(c ConnCase) vlib.Result {
	return vlib.WithWatchdog(60*time.Second, "the connection write queue", func() vlib.Result {
		vlib.Logs.Take()
		res := vlib.Result{Classes: []string{"workload=conn-write-queue", "mode=" + c.Mode}}
		tr := vlib.NewTracker()
		tr.MovePointer = true
		conf := nbio.Config{NPoller: 1, BodyAllocator: tr}
		vlib.ApplyMode(&conf, c.Mode)
		g := nbio.NewEngine(conf)
		g.OnData(func(*nbio.Conn, []byte) {})
		if err := g.Start(); err != nil {
			return vlib.Fail("harness: engine start: %v", err)
		}
		stopped := false
		defer func() {
			if !stopped {
				vlib.StopEngine(g.Stop, 10*time.Second)
			}
		}()
		a, peer, err := vlib.StreamPair(c.Transport, 4096, 4096)
		if err != nil {
			return vlib.Fail("harness: socket pair: %v", err)
		}
		defer peer.Close()
		nbc, err := g.AddConn(a)
		if err != nil {
			return vlib.Fail("harness: AddConn: %v", err)
		}
		tmpdir, _ := os.MkdirTemp("", "c11conn")
		defer os.RemoveAll(tmpdir)
		buf := make([]byte, 1<<16)
		var accepted, received int64
		closed := false
		queuedBehind := false
		for _, op := range c.Ops {
			if closed {
				break
			}
			switch op.K {
			case "write":
				if n, err := nbc.Write(make([]byte, op.N)); err == nil {
					accepted += int64(n)
				}
			case "writev":
				if n, err := nbc.Writev([][]byte{make([]byte, op.N/3), make([]byte, op.N-op.N/3)}); err == nil {
					accepted += int64(n)
				}
			case "sendfile":
				if op.N == 0 {
					continue
				}
				f, ferr := os.CreateTemp(tmpdir, "sf")
				if ferr != nil {
					return vlib.Fail("harness: temp file: %v", ferr)
				}
				_, _ = f.Write(make([]byte, op.N))
				_, _ = f.Seek(0, 0)
				if n, err := nbc.Sendfile(f, int64(op.N)); err == nil {
					accepted += n
				}
				_ = f.Close()
				if accepted-received > 300000 {
					queuedBehind = true
				}
			case "peer-read":
				left := op.N
				for left > 0 {
					k := left
					if k > len(buf) {
						k = len(buf)
					}
					_ = peer.SetReadDeadline(time.Now().Add(20 * time.Millisecond))
					n, err := peer.Read(buf[:k])
					received += int64(n)
					left -= n
					if err != nil {
						break
					}
				}
			case "pause":
				time.Sleep(time.Duration(op.N) * time.Microsecond)
			case "close":
				_ = nbc.Close()
				closed = true
			}
		}
		if !closed && c.DrainEnd {
			deadline := time.Now().Add(5 * time.Second)
			for received < accepted && time.Now().Before(deadline) {
				_ = peer.SetReadDeadline(time.Now().Add(50 * time.Millisecond))
				n, _ := peer.Read(buf)
				received += int64(n)
			}
			res.Classes = append(res.Classes, "drained-before-close")
		}
		_ = nbc.Close()
		stopped = true
		vlib.StopEngine(g.Stop, 10*time.Second)
		time.Sleep(time.Millisecond)
		if v := tr.Finish(); len(v) > 0 {
			res.Err = fmt.Errorf("%s", v[0])
			return res
		}
		if queuedBehind {
			res.Classes = append(res.Classes, "file-queued-behind-backlog")
		}
		res.NonTrivial = tr.FreedCount() > 0
		return res
	})
}

func genConn(t *rapid.T) ConnCase {
	c := ConnCase{Transport: rapid.SampledFrom([]string{"tcp", "unix"}).Draw(t, "transport"), Mode: rapid.SampledFrom(vlib.Modes).Draw(t, "mode"), DrainEnd: rapid.Bool().Draw(t, "drainend")}
	n := rapid.IntRange(2, 14).Draw(t, "nops")
	for i := 0; i < n; i++ {
		k := rapid.SampledFrom([]string{"write", "write", "write", "writev", "sendfile", "sendfile", "peer-read", "peer-read", "pause", "close"}).Draw(t, "op")
		if k == "close" && i < n-1 && rapid.IntRange(0, 3).Draw(t, "earlyclose") != 0 {
			k = "write"
		}
		op := ConnOp{K: k}
		switch k {
		case "write", "writev":
			op.N = rapid.SampledFrom([]int{0, 1, 23, 4096, 40960, 65536, 70000, 300000}).Draw(t, "size")
		case "sendfile":
			op.N = rapid.SampledFrom([]int{1, 4096, 70000, 1 << 20}).Draw(t, "fsize")
		case "peer-read":
			op.N = rapid.SampledFrom([]int{1, 4096, 100000, 1 << 20, 8 << 20}).Draw(t, "readn")
		case "pause":
			op.N = rapid.SampledFrom([]int{100, 1000, 5000}).Draw(t, "pauseus")
		}
		c.Ops = append(c.Ops, op)
	}
	return c
}

// ---------- workload 6: the WebSocket handshake response ----------

// UpgradeCase: the 101 response is built in a pooled buffer that starts small; custom response headers and
// a negotiated subprotocol make it grow past its capacity (several times, with the pointer-moving allocator).
type UpgradeCase struct {
	HeaderLens  []int `json:"header_lens"` // one custom response header per entry, value of that many bytes
	Subprotocol int   `json:"subprotocol_len"`
	Compression bool  `json:"compression"`
}

func runUpgrade(c UpgradeCase) vlib.Result {
	return vlib.WithWatchdog(60*time.Second, "the WebSocket upgrader", func() vlib.Result {
		tracker.Reset()
		res := vlib.Result{Classes: []string{"workload=upgrade-response"}}
		conn := &vlib.FakeConn{}
		u := websocket.NewUpgrader()
		u.KeepaliveTime = 0
		u.EnableCompression(c.Compression)
		proto := ""
		if c.Subprotocol > 0 {
			proto = strings.Repeat("p", c.Subprotocol)
			u.Subprotocols = []string{proto}
		}
		hdr := http.Header{}
		want := map[string]string{}
		for i, n := range c.HeaderLens {
			k := fmt.Sprintf("X-Custom-%d", i)
			v := string(vlib.GenPayload("ascii", n, uint32(i)))
			hdr.Set(k, v)
			want[k] = v
		}
		var upErr error
		var wsc *websocket.Conn
		conf := nbhttp.Config{ServerExecutor: inline, ClientExecutor: inline, SupportServerOnly: true, BodyAllocator: tracker}
		conf.Handler = http.HandlerFunc(func(w http.ResponseWriter, r *http.Request) {
			wsc, upErr = u.Upgrade(w, r, hdr)
		})
		engine := nbhttp.NewEngine(conf)
		u.Engine = engine
		p := nbhttp.NewParser(conn, engine, nbhttp.NewServerProcessor(), false, nil)
		req := "GET /ws HTTP/1.1\r\nHost: verif.local\r\nUpgrade: websocket\r\nConnection: Upgrade\r\nSec-WebSocket-Key: dGhlIHNhbXBsZSBub25jZQ==\r\nSec-WebSocket-Version: 13\r\n"
		if proto != "" {
			req += "Sec-WebSocket-Protocol: " + proto + "\r\n"
		}
		if c.Compression {
			req += "Sec-WebSocket-Extensions: permessage-deflate; server_no_context_takeover; client_no_context_takeover\r\n"
		}
		req += "\r\n"
		perr := p.Parse([]byte(req))
		if wsc != nil {
			wsc.CloseAndClean(nil)
		}
		p.CloseAndClean(perr)
		time.Sleep(200 * time.Microsecond) // the connection's own read loop (blocking style) ends on the fake conn's read error
		vlib.Logs.Take()
		if upErr != nil || perr != nil {
			res.Err = fmt.Errorf("a well-formed upgrade request was refused: Upgrade error %v, Parse error %v", upErr, perr)
			return res
		}
		resp, rerr := http.ReadResponse(bufio.NewReader(bytes.NewReader(conn.Bytes())), &http.Request{Method: "GET"})
		if rerr != nil || resp.StatusCode != 101 {
			res.Err = fmt.Errorf("the handshake response does not parse as a 101 response: %v (%s)", rerr, vlib.Preview(conn.Bytes(), 120))
			return res
		}
		for k, v := range want {
			if got := resp.Header.Get(k); got != v {
				what := ""
				if vlib.ContainsPoison([]byte(got), 3) {
					what = " (it contains freed-buffer poison)"
				}
				res.Err = fmt.Errorf("response header %s: %d bytes arrived, %d were set, or the content differs%s", k, len(got), len(v), what)
				return res
			}
		}
		if proto != "" && resp.Header.Get("Sec-Websocket-Protocol") != proto {
			res.Err = fmt.Errorf("negotiated subprotocol of %d bytes arrived as %d bytes", len(proto), len(resp.Header.Get("Sec-Websocket-Protocol")))
			return res
		}
		if v := tracker.Finish(); len(v) > 0 {
			res.Err = fmt.Errorf("%s", v[0])
			return res
		}
		total := 0
		for _, n := range c.HeaderLens {
			total += n
		}
		res.NonTrivial = total+c.Subprotocol > 900
		return res
	})
}

func genUpgrade(t *rapid.T) UpgradeCase {
	c := UpgradeCase{Compression: rapid.Bool().Draw(t, "compression")}
	n := rapid.IntRange(0, 4).Draw(t, "nheaders")
	for i := 0; i < n; i++ {
		c.HeaderLens = append(c.HeaderLens, rapid.SampledFrom([]int{0, 1, 100, 800, 890, 1024, 3000}).Draw(t, "hlen"))
	}
	c.Subprotocol = rapid.SampledFrom([]int{0, 0, 4, 900, 2000}).Draw(t, "proto")
	return c
}
