package c10

import (
	"bufio"
	"bytes"
	"crypto/tls"
	"fmt"
	"hash/fnv"
	"io"
	"net"
	"net/http"
	"os"
	"strconv"
	"strings"
	"sync"
	"sync/atomic"
	"syscall"
	"testing"
	"time"

	"verifharness/vlib"

	"github.com/lesismal/nbio/nbhttp"
	"pgregory.net/rapid"
)

type Req struct {
	BodyLen int    `json:"body_len"`
	RespLen int    `json:"resp_len"`
	Kind    string `json:"resp_kind"` // write, servecontent
	Chunks  int    `json:"chunks"`
	Close   bool   `json:"close,omitempty"`  // Connection: close
	HTTP10  bool   `json:"http10,omitempty"` // HTTP/1.0 without keep-alive (close semantics)
	// ConnForm: how the Connection options of the request are spelled: "" = single field line;
	// "lines" = an unrelated option in a first Connection line, the decisive one in a second;
	// "list" = a comma list with the decisive option last
	ConnForm string `json:"conn_form,omitempty"`
}

type ConnPlan struct {
	Batches     [][]Req `json:"batches"` // each batch is written at once (pipelined)
	RcvBuf      int     `json:"client_rcvbuf,omitempty"`
	ReadDelayMs int     `json:"client_read_delay_ms,omitempty"` // pause before reading the responses of a batch
}

type Case struct {
	IOMod  int        `json:"io_mod"`
	TLS    bool       `json:"tls"`
	Mode   string     `json:"mode"`
	Client string     `json:"client"` // raw, nethttp
	Conns  []ConnPlan `json:"conns"`
}

const knownCloseKey = "close-drops-queued-response"

var resetBehind int64

func respByte(conn, seq, i int) byte { return byte('a' + (conn*31+seq*7+i+(i>>10))%26) }
func fileByte(n, i int) byte         { return byte('A' + (n+i+(i>>12))%26) }
func reqByte(conn, seq, i int) byte  { return byte('0' + (conn*13+seq*3+i+(i>>9))%10) }

var (
	fileMu sync.Mutex
	files  = map[int]string{}
	fdir   string
)

func contentFile(n int) (string, error) {
	fileMu.Lock()
	defer fileMu.Unlock()
	if p, ok := files[n]; ok {
		return p, nil
	}
	if fdir == "" {
		d, err := os.MkdirTemp("", "c10files")
		if err != nil {
			return "", err
		}
		fdir = d
	}
	b := make([]byte, n)
	for i := range b {
		b[i] = fileByte(n, i)
	}
	p := fmt.Sprintf("%s/f%d", fdir, n)
	if err := os.WriteFile(p, b, 0o644); err != nil {
		return "", err
	}
	files[n] = p
	return p, nil
}

type server struct {
	engine   *nbhttp.Engine
	addr     string
	inflight sync.Map // remote addr -> *int32
	overlap  atomic.Value
	served   int64
}

func startServer(c Case) (*server, error) {
	s := &server{}
	h := http.HandlerFunc(func(w http.ResponseWriter, r *http.Request) {
		v, _ := s.inflight.LoadOrStore(r.RemoteAddr, new(int32))
		ctr := v.(*int32)
		if atomic.AddInt32(ctr, 1) != 1 {
			s.overlap.Store(fmt.Sprintf("two handlers of connection %s ran at the same time", r.RemoteAddr))
		}
		defer atomic.AddInt32(ctr, -1)
		atomic.AddInt64(&s.served, 1)
		body, _ := io.ReadAll(r.Body)
		hs := fnv.New64a()
		hs.Write(body)
		conn, _ := strconv.Atoi(r.Header.Get("X-Conn"))
		seq, _ := strconv.Atoi(r.Header.Get("X-Seq"))
		n, _ := strconv.Atoi(r.Header.Get("X-Resp-Len"))
		chunks, _ := strconv.Atoi(r.Header.Get("X-Chunks"))
		w.Header().Set("X-Conn", r.Header.Get("X-Conn"))
		w.Header().Set("X-Seq", r.Header.Get("X-Seq"))
		w.Header().Set("X-Body-Len", strconv.Itoa(len(body)))
		w.Header().Set("X-Body-Hash", strconv.FormatUint(hs.Sum64(), 16))
		if r.Header.Get("X-Resp-Kind") == "servecontent" {
			p, err := contentFile(n)
			if err != nil {
				http.Error(w, err.Error(), 500)
				return
			}
			f, err := os.Open(p)
			if err != nil {
				http.Error(w, err.Error(), 500)
				return
			}
			defer f.Close()
			w.Header().Set("Content-Type", "application/octet-stream")
			http.ServeContent(w, r, "", time.Time{}, f)
			return
		}
		if chunks < 1 {
			chunks = 1
		}
		data := make([]byte, n)
		for i := range data {
			data[i] = respByte(conn, seq, i)
		}
		if chunks == 1 {
			w.Header().Set("Content-Length", strconv.Itoa(n))
		}
		for k := 0; k < chunks; k++ {
			lo, hi := n*k/chunks, n*(k+1)/chunks
			if _, err := w.Write(data[lo:hi]); err != nil {
				return
			}
		}
	})
	conf := nbhttp.Config{Network: "tcp", NPoller: 2, IOMod: c.IOMod, MaxBlockingOnline: 2, Handler: h, SupportServerOnly: true, KeepaliveTime: 30 * time.Second}
	vlib.ApplyHTTPMode(&conf, c.Mode)
	if c.TLS {
		conf.AddrsTLS = []string{"127.0.0.1:0"}
		conf.TLSConfig = vlib.ServerTLSConfig()
	} else {
		conf.Addrs = []string{"127.0.0.1:0"}
	}
	s.engine = nbhttp.NewEngine(conf)
	if err := s.engine.Start(); err != nil {
		return nil, err
	}
	if c.TLS {
		s.addr = s.engine.AddrsTLS[0]
	} else {
		s.addr = s.engine.Addrs[0]
	}
	return s, nil
}

func dial(c Case, addr string, rcvbuf int) (net.Conn, error) {
	d := net.Dialer{Timeout: 5 * time.Second}
	if rcvbuf > 0 {
		d.Control = func(network, address string, rc syscall.RawConn) error {
			return rc.Control(func(fd uintptr) { _ = syscall.SetsockoptInt(int(fd), syscall.SOL_SOCKET, syscall.SO_RCVBUF, rcvbuf) })
		}
	}
	if c.TLS {
		return tls.DialWithDialer(&d, "tcp", addr, &tls.Config{InsecureSkipVerify: true})
	}
	return d.Dial("tcp", addr)
}

func reqBytes(ci, seq int, r Req) []byte {
	var b bytes.Buffer
	proto := "HTTP/1.1"
	if r.HTTP10 {
		proto = "HTTP/1.0"
	}
	method := "GET"
	if r.BodyLen > 0 {
		method = "POST"
	}
	fmt.Fprintf(&b, "%s /c%d/s%d %s\r\nHost: verif.local\r\nX-Conn: %d\r\nX-Seq: %d\r\nX-Resp-Len: %d\r\nX-Resp-Kind: %s\r\nX-Chunks: %d\r\n", method, ci, seq, proto, ci, seq, r.RespLen, r.Kind, r.Chunks)
	if r.Close {
		switch r.ConnForm {
		case "lines":
			b.WriteString("Connection: x-opt\r\nConnection: close\r\n")
		case "list":
			b.WriteString("Connection: x-opt , close\r\n")
		default:
			b.WriteString("Connection: close\r\n")
		}
	}
	if r.BodyLen > 0 {
		fmt.Fprintf(&b, "Content-Length: %d\r\n", r.BodyLen)
	}
	b.WriteString("\r\n")
	for i := 0; i < r.BodyLen; i++ {
		b.WriteByte(reqByte(ci, seq, i))
	}
	return b.Bytes()
}

func checkResp(ci, seq int, r Req, resp *http.Response) error {
	body, err := io.ReadAll(resp.Body)
	if err != nil {
		return fmt.Errorf("connection %d request %d: response body could not be read: %v (got %d of %d bytes)", ci, seq, err, len(body), r.RespLen)
	}
	if resp.StatusCode != 200 {
		return fmt.Errorf("connection %d request %d: status %d %s", ci, seq, resp.StatusCode, vlib.Preview(body, 100))
	}
	if resp.Header.Get("X-Conn") != strconv.Itoa(ci) || resp.Header.Get("X-Seq") != strconv.Itoa(seq) {
		return fmt.Errorf("connection %d request %d: got the response of connection %s request %s (wrong order or wrong connection)", ci, seq, resp.Header.Get("X-Conn"), resp.Header.Get("X-Seq"))
	}
	hs := fnv.New64a()
	for i := 0; i < r.BodyLen; i++ {
		hs.Write([]byte{reqByte(ci, seq, i)})
	}
	if resp.Header.Get("X-Body-Len") != strconv.Itoa(r.BodyLen) || resp.Header.Get("X-Body-Hash") != strconv.FormatUint(hs.Sum64(), 16) {
		return fmt.Errorf("connection %d request %d: the handler saw a request body of %s bytes (hash %s); %d bytes were sent", ci, seq, resp.Header.Get("X-Body-Len"), resp.Header.Get("X-Body-Hash"), r.BodyLen)
	}
	if len(body) != r.RespLen {
		return fmt.Errorf("connection %d request %d: response body has %d bytes, want %d", ci, seq, len(body), r.RespLen)
	}
	for i, b := range body {
		want := respByte(ci, seq, i)
		if r.Kind == "servecontent" {
			want = fileByte(r.RespLen, i)
		}
		if b != want {
			return fmt.Errorf("connection %d request %d: response body differs at offset %d of %d (got %q want %q): bytes of another response?", ci, seq, i, len(body), b, want)
		}
	}
	return nil
}

func rawConn(c Case, addr string, ci int, plan ConnPlan) error {
	conn, err := dial(c, addr, plan.RcvBuf)
	if err != nil {
		return fmt.Errorf("harness: dial: %v", err)
	}
	defer conn.Close()
	br := bufio.NewReaderSize(conn, 1<<16)
	seq := 0
	for _, batch := range plan.Batches {
		var out []byte
		closing := -1
		for i, r := range batch {
			out = append(out, reqBytes(ci, seq+i, r)...)
			if (r.Close || r.HTTP10) && closing < 0 {
				closing = i
			}
		}
		werr := make(chan error, 1)
		go func() {
			_ = conn.SetWriteDeadline(time.Now().Add(20 * time.Second))
			_, err := conn.Write(out)
			werr <- err
		}()
		if plan.ReadDelayMs > 0 {
			time.Sleep(time.Duration(plan.ReadDelayMs) * time.Millisecond)
		}
		for i, r := range batch {
			_ = conn.SetReadDeadline(time.Now().Add(20 * time.Second))
			method := "GET"
			if r.BodyLen > 0 {
				method = "POST"
			}
			if closing >= 0 && i > closing {
				// a request behind one with close semantics must not be served
				if resp, err := http.ReadResponse(br, &http.Request{Method: method}); err == nil {
					return fmt.Errorf("connection %d: request %d was answered (status %d, X-Seq %s) although request %d before it had close semantics", ci, seq+i, resp.StatusCode, resp.Header.Get("X-Seq"), seq+closing)
				}
				return nil
			}
			resp, err := http.ReadResponse(br, &http.Request{Method: method})
			if err == nil {
				err = checkResp(ci, seq+i, r, resp)
			} else {
				err = fmt.Errorf("connection %d request %d: no response: %v", ci, seq+i, err)
			}
			if err != nil {
				if closing == i && i < len(batch)-1 && strings.Contains(err.Error(), "reset by peer") {
					// the server closed while the requests pipelined behind the closing one were still
					// unread in its socket: the kernel answers that with a reset which may destroy the
					// response in flight. That is TCP, not the library; not asserted.
					atomic.AddInt64(&resetBehind, 1)
					return nil
				}
				return err
			}
			if closing == i {
				if !resp.Close && !r.HTTP10 {
					return fmt.Errorf("connection %d request %d asked for 'Connection: close' but the response does not announce it", ci, seq+i)
				}
				if i == len(batch)-1 {
					// the server must close now
					_ = conn.SetReadDeadline(time.Now().Add(5 * time.Second))
					if _, err := br.ReadByte(); err == nil {
						return fmt.Errorf("connection %d: unexpected data after the final response", ci)
					} else if ne, ok := err.(net.Error); ok && ne.Timeout() {
						return fmt.Errorf("connection %d: request %d had close semantics but the server kept the connection open", ci, seq+i)
					}
					return nil
				}
			}
		}
		if err := <-werr; err != nil {
			return fmt.Errorf("connection %d: could not send the batch: %v", ci, err)
		}
		seq += len(batch)
	}
	// keep-alive: the connection must still be open
	_ = conn.SetReadDeadline(time.Now().Add(30 * time.Millisecond))
	if _, err := br.ReadByte(); err == nil {
		return fmt.Errorf("connection %d: unexpected extra bytes after the last response", ci)
	} else if ne, ok := err.(net.Error); !ok || !ne.Timeout() {
		return fmt.Errorf("connection %d: the server closed a keep-alive connection after the last response: %v", ci, err)
	}
	return nil
}

func runCase(c Case) vlib.Result {
	res := vlib.Result{Classes: []string{fmt.Sprintf("cell=iomod%d/tls=%v/%s", c.IOMod, c.TLS, c.Mode), "client=" + c.Client}}
	vlib.Logs.Take()
	s, err := startServer(c)
	if err != nil {
		return vlib.Fail("harness: server start: %v", err)
	}
	defer vlib.StopEngine(s.engine.Stop, 10*time.Second)
	errs := make([]error, len(c.Conns))
	var wg sync.WaitGroup
	if c.Client == "nethttp" {
		tr := &http.Transport{TLSClientConfig: &tls.Config{InsecureSkipVerify: true}, MaxConnsPerHost: len(c.Conns), MaxIdleConnsPerHost: len(c.Conns)}
		cl := &http.Client{Transport: tr, Timeout: 30 * time.Second}
		defer tr.CloseIdleConnections()
		scheme := "http"
		if c.TLS {
			scheme = "https"
		}
		for ci, plan := range c.Conns {
			wg.Add(1)
			go func(ci int, plan ConnPlan) {
				defer wg.Done()
				seq := 0
				for _, batch := range plan.Batches {
					for _, r := range batch {
						var body io.Reader
						method := "GET"
						if r.BodyLen > 0 {
							b := make([]byte, r.BodyLen)
							for i := range b {
								b[i] = reqByte(ci, seq, i)
							}
							body = bytes.NewReader(b)
							method = "POST"
						}
						req, _ := http.NewRequest(method, fmt.Sprintf("%s://%s/c%d/s%d", scheme, s.addr, ci, seq), body)
						req.Header.Set("X-Conn", strconv.Itoa(ci))
						req.Header.Set("X-Seq", strconv.Itoa(seq))
						req.Header.Set("X-Resp-Len", strconv.Itoa(r.RespLen))
						req.Header.Set("X-Resp-Kind", r.Kind)
						req.Header.Set("X-Chunks", strconv.Itoa(r.Chunks))
						req.Close = r.Close
						resp, err := cl.Do(req)
						if err != nil {
							errs[ci] = fmt.Errorf("client %d request %d: %v", ci, seq, err)
							return
						}
						err = checkResp(ci, seq, r, resp)
						resp.Body.Close()
						if err != nil {
							errs[ci] = err
							return
						}
						seq++
					}
				}
			}(ci, plan)
		}
	} else {
		for ci, plan := range c.Conns {
			wg.Add(1)
			go func(ci int, plan ConnPlan) {
				defer wg.Done()
				errs[ci] = rawConn(c, s.addr, ci, plan)
			}(ci, plan)
		}
	}
	done := make(chan struct{})
	go func() { wg.Wait(); close(done) }()
	select {
	case <-done:
	case <-time.After(90 * time.Second):
		res.Err = fmt.Errorf("the exchange did not finish within 90 s")
		return res
	}
	if v := s.overlap.Load(); v != nil {
		res.Err = fmt.Errorf("%s", v.(string))
		return res
	}
	for _, e := range errs {
		if e != nil {
			res.Err = e
			return res
		}
	}
	if pl := vlib.Panics(vlib.Logs.Take()); len(pl) > 0 {
		res.Err = fmt.Errorf("recovered panic logged by the library: %s", pl[0])
		return res
	}
	if n := atomic.SwapInt64(&resetBehind, 0); n > 0 {
		res.Classes = append(res.Classes, "reset-while-requests-behind-close-unread(not asserted)")
	}
	big, deep := false, false
	for _, p := range c.Conns {
		for _, b := range p.Batches {
			if len(b) >= 2 {
				deep = true
			}
			for _, r := range b {
				if r.RespLen > 65536 {
					big = true
				}
			}
		}
	}
	res.NonTrivial = (len(c.Conns) >= 2 && deep) || big
	return res
}

func genReq(t *rapid.T) Req {
	r := Req{Kind: rapid.SampledFrom([]string{"write", "write", "write", "servecontent"}).Draw(t, "kind"), Chunks: rapid.IntRange(1, 5).Draw(t, "chunks")}
	r.BodyLen = rapid.SampledFrom([]int{0, 0, 1, 100, 4096, 65536, 262144}).Draw(t, "bodylen")
	r.RespLen = rapid.SampledFrom([]int{0, 1, 100, 4000, 65534, 65535, 65536, 65537, 65538, 200000, 1 << 20}).Draw(t, "resplen")
	return r
}

func genCase(t *rapid.T) Case {
	c := Case{IOMod: rapid.SampledFrom([]int{nbhttp.IOModNonBlocking, nbhttp.IOModBlocking, nbhttp.IOModMixed}).Draw(t, "iomod"), TLS: rapid.Bool().Draw(t, "tls"), Mode: rapid.SampledFrom(vlib.Modes).Draw(t, "mode")}
	c.Client = rapid.SampledFrom([]string{"raw", "raw", "raw", "nethttp"}).Draw(t, "client")
	n := rapid.SampledFrom([]int{1, 2, 3, 4, 8, 16}).Draw(t, "nconns")
	budget := 6 << 20 // bytes of response per case
	for i := 0; i < n; i++ {
		var plan ConnPlan
		nb := rapid.IntRange(1, 3).Draw(t, "nbatches")
		closed := false
		for b := 0; b < nb && !closed; b++ {
			depth := rapid.IntRange(1, 6).Draw(t, "depth")
			if c.Client == "nethttp" {
				depth = 1
			}
			var batch []Req
			for k := 0; k < depth; k++ {
				r := genReq(t)
				if r.RespLen > budget/(n*2) {
					r.RespLen = 4000
				}
				budget -= r.RespLen
				if budget < 0 {
					budget = 0
				}
				batch = append(batch, r)
			}
			// close semantics on one request of the last batch (raw client only)
			if c.Client == "raw" && b == nb-1 && rapid.IntRange(0, 2).Draw(t, "closing") == 0 {
				k := rapid.IntRange(0, len(batch)-1).Draw(t, "closeat")
				if rapid.Bool().Draw(t, "http10") {
					batch[k].HTTP10 = true
				} else {
					batch[k].Close = true
					batch[k].ConnForm = rapid.SampledFrom([]string{"", "", "lines", "list"}).Draw(t, "connform")
				}
				if k == len(batch)-1 && rapid.IntRange(0, 1).Draw(t, "bigclose") == 0 {
					batch[k].RespLen = rapid.SampledFrom([]int{1 << 20, 4 << 20, 6 << 20}).Draw(t, "bigcloselen")
					batch[k].Kind = "write"
				}
				if k < len(batch)-1 {
					// something is pipelined behind the closing request: keep those requests tiny and the
					// closing response small (see the reset note in rawConn), and at most two of them
					if batch[k].RespLen > 4000 {
						batch[k].RespLen = 4000
					}
					if len(batch) > k+3 {
						batch = batch[:k+3]
					}
					for j := k + 1; j < len(batch); j++ {
						batch[j].BodyLen = 0
					}
				}
				closed = true
			}
			plan.Batches = append(plan.Batches, batch)
		}
		if c.Client == "raw" && rapid.IntRange(0, 2).Draw(t, "slowclient") == 0 {
			plan.RcvBuf = 4096
			plan.ReadDelayMs = rapid.SampledFrom([]int{5, 30, 80}).Draw(t, "readdelay")
			if len(plan.Batches) > 0 && rapid.IntRange(0, 2).Draw(t, "bigfile") == 0 {
				// a file larger than any socket buffer served to the slow client: the tail of the file stays
				// queued in the connection and is sent over many writable events
				b := plan.Batches[len(plan.Batches)-1]
				if last := &b[len(b)-1]; !last.Close && !last.HTTP10 {
					last.Kind, last.RespLen, last.BodyLen = "servecontent", 6<<20, 0
				}
			}
		}
		c.Conns = append(c.Conns, plan)
	}
	return c
}

// applyKnown caps the response size of close-semantics requests in the non-blocking modes when the
// known finding is listed, and reports how many requests were changed.
func applyKnown(r *vlib.Runner, c Case) (Case, int) {
	if !r.KnownFinding(knownCloseKey) || c.IOMod == nbhttp.IOModBlocking {
		return c, 0
	}
	n := 0
	for ci := range c.Conns {
		for bi := range c.Conns[ci].Batches {
			for ri := range c.Conns[ci].Batches[bi] {
				q := &c.Conns[ci].Batches[bi][ri]
				if (q.Close || q.HTTP10) && q.RespLen > 32768 {
					q.RespLen = 32768
					n++
				}
			}
		}
	}
	return c, n
}

func cells() []Case {
	var out []Case
	for _, io := range []int{nbhttp.IOModNonBlocking, nbhttp.IOModBlocking, nbhttp.IOModMixed} {
		for _, tlsOn := range []bool{false, true} {
			for _, m := range vlib.Modes {
				c := Case{IOMod: io, TLS: tlsOn, Mode: m, Client: "raw"}
				for i := 0; i < 4; i++ {
					c.Conns = append(c.Conns, ConnPlan{Batches: [][]Req{
						{{BodyLen: 100, RespLen: 65537, Kind: "write", Chunks: 3}, {RespLen: 200000, Kind: "servecontent", Chunks: 1}, {BodyLen: 65536, RespLen: 10, Kind: "write", Chunks: 1}},
						{{RespLen: 100, Kind: "write", Chunks: 2}, {RespLen: 20000, Kind: "write", Chunks: 1, Close: true}, {RespLen: 5, Kind: "write", Chunks: 1}},
					}})
				}
				out = append(out, c)
			}
		}
	}
	return out
}

// witness is the canonical reproducer of the known finding: one connection, one request with close
// semantics, a response far larger than the kernel's socket buffers, a client that starts reading late.
func witness() Case {
	return Case{IOMod: nbhttp.IOModNonBlocking, Mode: vlib.ModeLT, Client: "raw", Conns: []ConnPlan{{
		Batches: [][]Req{{{RespLen: 6 << 20, Kind: "write", Chunks: 3, Close: true}}}, RcvBuf: 4096, ReadDelayMs: 80}}}
}

func runWitness(c Case) vlib.Result {
	res := runCase(c)
	if res.Err != nil && (strings.Contains(res.Err.Error(), "unexpected EOF") || strings.Contains(res.Err.Error(), "response body has")) {
		res.Known = knownCloseKey
	}
	return res
}

func TestCheck(t *testing.T) {
	r := vlib.NewRunner(t, "C10")
	vlib.RunCases(r, "witness", []Case{witness()}, runWitness, false)
	run := func(c Case) vlib.Result {
		c2, n := applyKnown(r, c)
		res := runCase(c2)
		if n > 0 {
			res.Excluded = knownCloseKey
		}
		return res
	}
	_ = runWitness
	vlib.RunCases(r, "cells", cells(), run, true)
	r.MarkExhaustive("matrix cells I/O mode x {plain, TLS} x epoll mode (18 cells, one fixed workload each)")
	vlib.RunCheck(r, vlib.Check[Case]{Name: "exchanges", N: r.Pick(400, 6000), Gen: genCase, Run: run, Confirm: true, RecordCurrent: true})
	vlib.RunCheck(r, vlib.Check[ClientCase]{Name: "client", N: r.Pick(400, 8000), Gen: genClient, Run: runClient, Confirm: true, RecordCurrent: true})
	r.Finish()
}
