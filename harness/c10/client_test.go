package c10

import (
	"fmt"
	"io"
	"net"
	"net/http"
	"strconv"
	"sync"
	"sync/atomic"
	"time"

	"verifharness/vlib"

	"github.com/lesismal/nbio/nbhttp"
	"pgregory.net/rapid"
)

// Client side of the library: every Do callback fires exactly once, with the response that belongs to
// the request or with an error.

type CReq struct {
	Behave  string `json:"behave"` // ok, stall, cut
	RespLen int    `json:"resp_len"`
	BodyLen int    `json:"body_len"`
	// CallbackMs: the application's callback for this request takes this long (longer than the client's
	// timeout: the requests queued behind it time out while it runs)
	CallbackMs int `json:"callback_ms,omitempty"`
}

type ClientCase struct {
	Mode      string `json:"mode"`
	Pipelined bool   `json:"pipelined_on_one_clientconn"`
	MaxConns  int    `json:"max_conns_per_host"`
	Reqs      []CReq `json:"reqs"`
	Threads   int    `json:"threads"`
	// ConcurrentDo (pipelined only): the requests are issued by Threads goroutines sharing the ClientConn
	ConcurrentDo bool `json:"concurrent_do,omitempty"`
}

func cbyte(id, i int) byte { return byte('k' + (id*17+i+(i>>11))%13) }

func runClient(c ClientCase) vlib.Result {
	res := vlib.Result{Classes: []string{"client-side", fmt.Sprintf("pipelined=%v", c.Pipelined)}}
	vlib.Logs.Take()
	// harness server (net/http)
	ln, err := net.Listen("tcp", "127.0.0.1:0")
	if err != nil {
		return vlib.Fail("harness: listen: %v", err)
	}
	release := make(chan struct{})
	srv := &http.Server{Handler: http.HandlerFunc(func(w http.ResponseWriter, r *http.Request) {
		_, _ = io.Copy(io.Discard, r.Body)
		id, _ := strconv.Atoi(r.Header.Get("X-Id"))
		n, _ := strconv.Atoi(r.Header.Get("X-Resp-Len"))
		switch r.Header.Get("X-Behave") {
		case "stall":
			// no answer for a while, then the connection is cut (the check does not depend on the
			// client's own timeout handling, which is not part of the property)
			select {
			case <-release:
			case <-time.After(300 * time.Millisecond):
			}
			fallthrough
		case "cut":
			if hj, ok := w.(http.Hijacker); ok {
				conn, _, _ := hj.Hijack()
				if conn != nil {
					conn.Close()
				}
			}
			return
		}
		w.Header().Set("X-Id", strconv.Itoa(id))
		b := make([]byte, n)
		for i := range b {
			b[i] = cbyte(id, i)
		}
		_, _ = w.Write(b)
	})}
	go srv.Serve(ln)
	defer func() { close(release); srv.Close() }()

	conf := nbhttp.Config{NPoller: 2}
	vlib.ApplyHTTPMode(&conf, c.Mode)
	engine := nbhttp.NewEngine(conf)
	if err := engine.Start(); err != nil {
		return vlib.Fail("harness: client engine start: %v", err)
	}
	defer vlib.StopEngine(engine.Stop, 10*time.Second)

	type outcome struct {
		calls int32
		err   error
		bad   string
	}
	outs := make([]*outcome, len(c.Reqs))
	for i := range outs {
		outs[i] = &outcome{}
	}
	mkReq := func(i int, q CReq) *http.Request {
		var body io.Reader
		method := "GET"
		if q.BodyLen > 0 {
			body = io.LimitReader(constReader('b'), int64(q.BodyLen))
			method = "POST"
		}
		req, _ := http.NewRequest(method, "http://"+ln.Addr().String()+"/r"+strconv.Itoa(i), body)
		if q.BodyLen > 0 {
			req.ContentLength = int64(q.BodyLen)
		}
		req.Header.Set("X-Id", strconv.Itoa(i))
		req.Header.Set("X-Resp-Len", strconv.Itoa(q.RespLen))
		req.Header.Set("X-Behave", q.Behave)
		return req
	}
	handler := func(i int, q CReq) func(*http.Response, net.Conn, error) {
		return func(r *http.Response, _ net.Conn, err error) {
			o := outs[i]
			if atomic.AddInt32(&o.calls, 1) != 1 {
				return
			}
			o.err = err
			if err != nil {
				return
			}
			if r == nil {
				o.bad = "callback with nil response and nil error"
				return
			}
			if r.Header.Get("X-Id") != strconv.Itoa(i) {
				o.bad = fmt.Sprintf("callback of request %d received the response of request %s", i, r.Header.Get("X-Id"))
				return
			}
			var body []byte
			if r.Body != nil {
				body, _ = io.ReadAll(r.Body)
			}
			if len(body) != q.RespLen {
				o.bad = fmt.Sprintf("response %d has %d body bytes, want %d", i, len(body), q.RespLen)
				return
			}
			for k, b := range body {
				if b != cbyte(i, k) {
					o.bad = fmt.Sprintf("response %d body differs at offset %d", i, k)
					return
				}
			}
			if q.CallbackMs > 0 {
				time.Sleep(time.Duration(q.CallbackMs) * time.Millisecond)
			}
		}
	}
	timeout := 700 * time.Millisecond
	if c.Pipelined {
		cc := &nbhttp.ClientConn{Engine: engine, Timeout: timeout}
		if c.ConcurrentDo && c.Threads > 1 {
			// several goroutines share the ClientConn: registering a callback and writing its request
			// must be one step, or responses (matched by order) reach the wrong callbacks
			res.Classes = append(res.Classes, "concurrent Do on one ClientConn")
			var wg sync.WaitGroup
			for th := 0; th < c.Threads; th++ {
				wg.Add(1)
				go func(th int) {
					defer wg.Done()
					for i := th; i < len(c.Reqs); i += c.Threads {
						cc.Do(mkReq(i, c.Reqs[i]), handler(i, c.Reqs[i]))
					}
				}(th)
			}
			wg.Wait()
		} else {
			for i, q := range c.Reqs {
				cc.Do(mkReq(i, q), handler(i, q))
			}
		}
		defer cc.Close()
	} else {
		cli := &nbhttp.Client{Engine: engine, Timeout: timeout, MaxConnsPerHost: int32(c.MaxConns)}
		defer cli.Close()
		var wg sync.WaitGroup
		per := (len(c.Reqs) + c.Threads - 1) / c.Threads
		for th := 0; th < c.Threads; th++ {
			wg.Add(1)
			go func(th int) {
				defer wg.Done()
				for i := th * per; i < (th+1)*per && i < len(c.Reqs); i++ {
					cli.Do(mkReq(i, c.Reqs[i]), handler(i, c.Reqs[i]))
				}
			}(th)
		}
		wg.Wait()
	}
	vlib.WaitUntil(timeout*time.Duration(len(c.Reqs)+2)+3*time.Second, func() bool {
		for _, o := range outs {
			if atomic.LoadInt32(&o.calls) == 0 {
				return false
			}
		}
		return true
	})
	time.Sleep(150 * time.Millisecond) // duplicates would show up now
	failedBefore := false
	for i, o := range outs {
		n := atomic.LoadInt32(&o.calls)
		if n != 1 {
			res.Err = fmt.Errorf("the callback of request %d (%+v) was invoked %d times", i, c.Reqs[i], n)
			return res
		}
		if o.bad != "" {
			res.Err = fmt.Errorf("%s", o.bad)
			return res
		}
		if o.err != nil {
			res.Classes = append(res.Classes, "callback-error")
			// once one request of the history makes the server stall or cut the connection, other
			// requests may fail as well: pipelined ones share the broken connection (also earlier ones
			// whose response had not been processed yet when a later write failed), pooled ones may
			// queue behind it. Only histories in which the server answers everything must fully succeed.
			mayFail := c.Reqs[i].Behave != "ok" || failedBefore
			for _, q := range c.Reqs {
				if q.Behave != "ok" {
					mayFail = true
				}
			}
			if !mayFail {
				res.Err = fmt.Errorf("request %d (%+v) to a healthy server failed: %v", i, c.Reqs[i], o.err)
				return res
			}
			failedBefore = true
		} else if c.Reqs[i].Behave != "ok" {
			res.Err = fmt.Errorf("request %d: the server never answered (%s) but the callback reports success", i, c.Reqs[i].Behave)
			return res
		}
	}
	res.NonTrivial = len(c.Reqs) >= 2
	return res
}

type constReader byte

func (c constReader) Read(p []byte) (int, error) {
	for i := range p {
		p[i] = byte(c)
	}
	return len(p), nil
}

func genClient(t *rapid.T) ClientCase {
	c := ClientCase{Mode: rapid.SampledFrom(vlib.Modes).Draw(t, "mode"), Pipelined: rapid.Bool().Draw(t, "pipelined")}
	c.MaxConns = rapid.SampledFrom([]int{1, 2, 8}).Draw(t, "maxconns")
	c.Threads = rapid.IntRange(1, 4).Draw(t, "threads")
	n := rapid.IntRange(1, 10).Draw(t, "nreqs")
	allOK := rapid.IntRange(0, 2).Draw(t, "allok") != 0
	for i := 0; i < n; i++ {
		q := CReq{Behave: "ok", RespLen: rapid.SampledFrom([]int{0, 1, 100, 4096, 65536, 300000}).Draw(t, "resplen"), BodyLen: rapid.SampledFrom([]int{0, 0, 10, 70000}).Draw(t, "bodylen")}
		if !allOK && rapid.IntRange(0, 3).Draw(t, "bad") == 0 {
			q.Behave = rapid.SampledFrom([]string{"stall", "cut"}).Draw(t, "behave")
		}
		c.Reqs = append(c.Reqs, q)
	}
	if c.Pipelined && len(c.Reqs) >= 2 && c.Threads > 1 && rapid.Bool().Draw(t, "concurrentdo") {
		c.ConcurrentDo = true
		return c
	}
	if c.Pipelined && len(c.Reqs) >= 2 && rapid.IntRange(0, 5).Draw(t, "slowcb") == 0 {
		// a slow callback in front of a request the server never answers: that one times out while the
		// callback is still running
		k := rapid.IntRange(0, len(c.Reqs)-2).Draw(t, "slowat")
		c.Reqs[k].Behave, c.Reqs[k].CallbackMs = "ok", 900
		c.Reqs[k+1].Behave = "stall"
	}
	return c
}
