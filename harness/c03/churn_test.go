package c03

import (
	"fmt"
	"net"
	"sync"
	"sync/atomic"
	"time"

	"verifharness/vlib"

	"github.com/lesismal/nbio"
	"pgregory.net/rapid"
)

// Churn: one engine, many goroutines that concurrently bring connections into it and end them, so that
// descriptor numbers are reused by new connections while older ones are still inside their close path.
// The close path is stretched with things an application legitimately does: a failed-dial callback that
// takes a while, and a connection closed with many queued write buffers to release.
type Churn struct {
	Mode         string `json:"mode"`
	NPoller      int    `json:"npoller"`
	Transport    string `json:"transport"`
	Adders       int    `json:"adders"`
	Rounds       int    `json:"rounds"`
	Dialers      int    `json:"dialers"`
	CallbackUs   int    `json:"dial_callback_us"`
	Backloggers  int    `json:"backloggers"`
	BacklogParts int    `json:"backlog_parts"`
	// YieldPerMille (instrumented build only): probability, in 1/1000, with which every lock / unlock
	// statement of the library yields the processor or sleeps 1-50 us (schedule perturbation)
	YieldPerMille int `json:"yield_per_mille,omitempty"`
	// Respawn: connections left open when the engine is stopped whose close handler brings a replacement
	// connection in (AddConn from OnClose, i.e. while Stop runs): the replacement is a managed connection
	// as well and Stop has to end it with one close notification
	Respawn int `json:"respawn,omitempty"`
}

type churnRec struct {
	opens, closes, data int32
	added               bool // brought in by AddConn (as opposed to a failed dial's connection object)
}

func runChurn(c Churn) vlib.Result {
	defer vlib.Yield(c.YieldPerMille, 0x5eed)()
	vlib.Logs.Take()
	res := vlib.Result{Classes: []string{"churn", "mode=" + c.Mode}}
	conf := nbio.Config{NPoller: c.NPoller}
	vlib.ApplyMode(&conf, c.Mode)
	g := nbio.NewEngine(conf)
	var mu sync.Mutex
	recs := map[*nbio.Conn]*churnRec{}
	rec := func(nc *nbio.Conn) *churnRec {
		mu.Lock()
		defer mu.Unlock()
		r := recs[nc]
		if r == nil {
			r = &churnRec{}
			recs[nc] = r
		}
		return r
	}
	g.OnOpen(func(nc *nbio.Conn) { atomic.AddInt32(&rec(nc).opens, 1) })
	var respawnPeers []net.Conn
	var respawned int32
	defer func() {
		mu.Lock()
		for _, p := range respawnPeers {
			_ = p.Close()
		}
		mu.Unlock()
	}()
	addPair := func(mark bool) error {
		s, peer, err := vlib.StreamPair(c.Transport, 0, 0)
		if err != nil {
			return err
		}
		nbc, err := nbio.NBConn(s)
		if err != nil {
			peer.Close()
			return err
		}
		mu.Lock()
		respawnPeers = append(respawnPeers, peer)
		mu.Unlock()
		rec(nbc).added = true
		if mark {
			nbc.SetSession("respawn")
		}
		if _, err := g.AddConn(nbc); err != nil {
			// refused (the engine is past the point of taking connections): not a managed connection
			rec(nbc).added = false
		}
		return nil
	}
	g.OnClose(func(nc *nbio.Conn, err error) {
		atomic.AddInt32(&rec(nc).closes, 1)
		if nc.Session() == "respawn" {
			if addPair(false) == nil {
				atomic.AddInt32(&respawned, 1)
			}
		}
	})
	g.OnData(func(nc *nbio.Conn, b []byte) { atomic.AddInt32(&rec(nc).data, int32(len(b))) })
	if err := g.Start(); err != nil {
		return vlib.Fail("harness: engine start: %v", err)
	}
	stopped := false
	defer func() {
		if !stopped {
			vlib.StopEngine(g.Stop, 10*time.Second)
		}
	}()

	var failMu sync.Mutex
	var failure error
	fail := func(f string, a ...any) {
		failMu.Lock()
		if failure == nil {
			failure = fmt.Errorf(f, a...)
		}
		failMu.Unlock()
	}
	failed := func() bool {
		failMu.Lock()
		defer failMu.Unlock()
		return failure != nil
	}
	var harnessErr atomic.Value
	var wg sync.WaitGroup
	var dialCalls, dialOK, dialIssued int64
	var reused int64

	for a := 0; a < c.Adders; a++ {
		wg.Add(1)
		go func(a int) {
			defer wg.Done()
			for r := 0; r < c.Rounds && !failed(); r++ {
				s, peer, err := vlib.StreamPair(c.Transport, 0, 0)
				if err != nil {
					harnessErr.Store(err)
					return
				}
				nbc, err := nbio.NBConn(s)
				if err != nil {
					peer.Close()
					harnessErr.Store(err)
					return
				}
				st := rec(nbc)
				st.added = true
				if _, err := g.AddConn(nbc); err != nil {
					peer.Close()
					fail("AddConn on a running engine failed: %v", err)
					return
				}
				_, _ = peer.Write([]byte{vlib.TagByte(a&3, int64(r))})
				if !vlib.WaitUntil(10*time.Second, func() bool { return atomic.LoadInt32(&st.data) >= 1 }) {
					peer.Close()
					fail("a connection added to the engine (adder %d round %d, fd %d) never got the byte its peer sent (10 s): its events are lost", a, r, fdOf(nbc))
					return
				}
				peer.Close()
				if !vlib.WaitUntil(10*time.Second, func() bool { return atomic.LoadInt32(&st.closes) >= 1 }) {
					fail("a connection whose peer closed (adder %d round %d) got no close notification within 10 s", a, r)
					return
				}
			}
		}(a)
	}
	for d := 0; d < c.Dialers; d++ {
		wg.Add(1)
		go func() {
			defer wg.Done()
			for r := 0; r < c.Rounds && !failed(); r++ {
				done := make(chan struct{})
				var calls int32
				atomic.AddInt64(&dialIssued, 1)
				err := g.DialAsync("tcp", refusedAddr(), func(nc *nbio.Conn, err error) {
					if atomic.AddInt32(&calls, 1) == 1 {
						atomic.AddInt64(&dialCalls, 1)
						if err == nil {
							atomic.AddInt64(&dialOK, 1)
						}
						// an application doing some work in its failure callback
						if c.CallbackUs > 0 {
							time.Sleep(time.Duration(c.CallbackUs) * time.Microsecond)
						}
						close(done)
					} else {
						fail("the callback of one DialAsync call ran more than once")
					}
				})
				if err != nil {
					atomic.AddInt64(&dialIssued, -1)
					continue
				}
				select {
				case <-done:
				case <-time.After(10 * time.Second):
					fail("DialAsync to a refusing address: callback not invoked within 10 s")
					return
				}
			}
		}()
	}
	for b := 0; b < c.Backloggers; b++ {
		wg.Add(1)
		go func() {
			defer wg.Done()
			for r := 0; r < c.Rounds && !failed(); r++ {
				s, peer, err := vlib.StreamPair(c.Transport, 4096, 4096)
				if err != nil {
					harnessErr.Store(err)
					return
				}
				nbc, err := nbio.NBConn(s)
				if err != nil {
					peer.Close()
					harnessErr.Store(err)
					return
				}
				st := rec(nbc)
				st.added = true
				if _, err := g.AddConn(nbc); err != nil {
					peer.Close()
					fail("AddConn on a running engine failed: %v", err)
					return
				}
				// queue entries the close path has to release (each part is bigger than the coalescing limit)
				part := make([]byte, 70000)
				for i := 0; i < c.BacklogParts; i++ {
					if _, err := nbc.Write(part); err != nil {
						break
					}
				}
				_ = nbc.Close()
				if !vlib.WaitUntil(10*time.Second, func() bool { return atomic.LoadInt32(&st.closes) >= 1 }) {
					peer.Close()
					fail("a connection closed by the application got no close notification within 10 s")
					return
				}
				peer.Close()
			}
		}()
	}
	wg.Wait()
	if e := harnessErr.Load(); e != nil {
		return vlib.Fail("harness: socket pair: %v", e)
	}
	failMu.Lock()
	f := failure
	failMu.Unlock()
	if f != nil {
		res.Err = f
		return res
	}
	for i := 0; i < c.Respawn; i++ {
		if err := addPair(true); err != nil {
			return vlib.Fail("harness: socket pair: %v", err)
		}
	}
	stopped = true
	if !vlib.StopEngine(g.Stop, 10*time.Second) {
		mu.Lock()
		open := 0
		for _, r := range recs {
			if r.added && atomic.LoadInt32(&r.opens) == 1 && atomic.LoadInt32(&r.closes) == 0 {
				open++
			}
		}
		mu.Unlock()
		res.Err = fmt.Errorf("Engine.Stop did not return within 10 s after the churn (%d connections were left open for it, %d replacements were added from close handlers while it ran, %d managed connections still have no close notification)", c.Respawn, atomic.LoadInt32(&respawned), open)
		return res
	}
	if c.Respawn > 0 {
		res.Classes = append(res.Classes, "connections added from close handlers while Stop ran")
		res.NonTrivial = true
	}
	time.Sleep(20 * time.Millisecond)
	if n := atomic.LoadInt64(&dialOK); n != 0 {
		res.Err = fmt.Errorf("%d dials to a refusing address reported success", n)
		return res
	}
	if atomic.LoadInt64(&dialCalls) != atomic.LoadInt64(&dialIssued) {
		res.Err = fmt.Errorf("%d DialAsync calls were accepted, %d callbacks ran", dialIssued, dialCalls)
		return res
	}
	mu.Lock()
	defer mu.Unlock()
	fds := map[int]int{}
	for nc, r := range recs {
		o, cl := atomic.LoadInt32(&r.opens), atomic.LoadInt32(&r.closes)
		if r.added && (o != 1 || cl != 1) {
			res.Err = fmt.Errorf("a connection added to the engine (fd %d) got %d open and %d close notifications", fdOf(nc), o, cl)
			return res
		}
		// the connection object of a failed dial: what it is told is not asserted here beyond "never twice"
		if o > 1 || cl > 1 {
			res.Err = fmt.Errorf("a connection (fd %d) got %d open and %d close notifications", fdOf(nc), o, cl)
			return res
		}
		fds[fdOf(nc)]++
	}
	for _, n := range fds {
		if n > 1 {
			reused += int64(n - 1)
		}
	}
	if reused > 0 {
		res.Classes = append(res.Classes, "descriptor numbers reused during the churn")
		res.NonTrivial = true
	}
	return res
}

func genChurn(t *rapid.T) Churn {
	c := Churn{Mode: rapid.SampledFrom(vlib.Modes).Draw(t, "mode"), NPoller: rapid.IntRange(1, 4).Draw(t, "npoller")}
	c.Transport = rapid.SampledFrom([]string{"unix", "unix", "tcp"}).Draw(t, "transport")
	c.Adders = rapid.SampledFrom([]int{1, 2, 4, 8}).Draw(t, "adders")
	c.Rounds = rapid.SampledFrom([]int{5, 10, 20}).Draw(t, "rounds")
	c.Dialers = rapid.SampledFrom([]int{0, 1, 2, 4}).Draw(t, "dialers")
	c.CallbackUs = rapid.SampledFrom([]int{0, 200, 2000}).Draw(t, "callbackus")
	c.Backloggers = rapid.SampledFrom([]int{0, 1, 2}).Draw(t, "backloggers")
	c.BacklogParts = rapid.SampledFrom([]int{2, 20, 100}).Draw(t, "parts")
	if vlib.YieldAvailable {
		c.YieldPerMille = rapid.SampledFrom([]int{0, 0, 20, 100, 300}).Draw(t, "yield")
	}
	c.Respawn = rapid.SampledFrom([]int{0, 0, 1, 3, 8}).Draw(t, "respawn")
	return c
}

// PendingDials: asynchronous dials that can neither complete nor be refused (the listener's accept queue
// is full) are still in flight when something ends them: the engine stops, or their own timeout fires.
// Whatever ends a dial that was never established, its callback runs exactly once and reports an error.
type PendingDials struct {
	Mode      string `json:"mode"`
	NPoller   int    `json:"npoller"`
	Dials     int    `json:"dials"`
	TimeoutMs []int  `json:"timeout_ms"` // per dial: 0 = DialAsync without timeout
	WaitMs    int    `json:"wait_ms"`    // before the engine is stopped
}

func runPendingDials(c PendingDials) vlib.Result {
	vlib.Logs.Take()
	res := vlib.Result{Classes: []string{"pending-dials", "mode=" + c.Mode}}
	conf := nbio.Config{NPoller: c.NPoller}
	vlib.ApplyMode(&conf, c.Mode)
	g := nbio.NewEngine(conf)
	if err := g.Start(); err != nil {
		return vlib.Fail("harness: engine start: %v", err)
	}
	stopped := false
	defer func() {
		if !stopped {
			vlib.StopEngine(g.Stop, 10*time.Second)
		}
	}()
	addr, cleanup, err := fullBacklogListener()
	if err != nil {
		return vlib.Fail("harness: backlog listener: %v", err)
	}
	defer cleanup()
	type dial struct {
		calls  int32
		okCall int32
		issued bool
	}
	ds := make([]*dial, c.Dials)
	for i := range ds {
		d := &dial{}
		ds[i] = d
		cb := func(nc *nbio.Conn, err error) {
			atomic.AddInt32(&d.calls, 1)
			if err == nil {
				atomic.AddInt32(&d.okCall, 1)
			}
		}
		var derr error
		if ms := c.TimeoutMs[i%len(c.TimeoutMs)]; ms > 0 {
			derr = g.DialAsyncTimeout("tcp", addr, time.Duration(ms)*time.Millisecond, cb)
		} else {
			derr = g.DialAsync("tcp", addr, cb)
		}
		d.issued = derr == nil
	}
	time.Sleep(time.Duration(c.WaitMs) * time.Millisecond)
	stopped = true
	if !vlib.StopEngine(g.Stop, 10*time.Second) {
		res.Err = fmt.Errorf("Engine.Stop did not return within 10 s with %d asynchronous dials in flight", c.Dials)
		return res
	}
	vlib.WaitUntil(3*time.Second, func() bool {
		for _, d := range ds {
			if d.issued && atomic.LoadInt32(&d.calls) == 0 {
				return false
			}
		}
		return true
	})
	time.Sleep(20 * time.Millisecond)
	for i, d := range ds {
		if !d.issued {
			continue
		}
		n, ok := atomic.LoadInt32(&d.calls), atomic.LoadInt32(&d.okCall)
		switch {
		case ok > 0:
			res.Err = fmt.Errorf("dial %d to a listener that accepts nothing (timeout %d ms, engine stopped after %d ms) reported success: the connection was never established", i, c.TimeoutMs[i%len(c.TimeoutMs)], c.WaitMs)
		case n == 0:
			res.Err = fmt.Errorf("dial %d (timeout %d ms, engine stopped after %d ms): the callback was never invoked (3 s after Stop returned)", i, c.TimeoutMs[i%len(c.TimeoutMs)], c.WaitMs)
		case n > 1:
			res.Err = fmt.Errorf("dial %d: the callback was invoked %d times", i, n)
		}
		if res.Err != nil {
			return res
		}
		res.NonTrivial = true
	}
	return res
}

func genPendingDials(t *rapid.T) PendingDials {
	c := PendingDials{Mode: rapid.SampledFrom(vlib.Modes).Draw(t, "mode"), NPoller: rapid.IntRange(1, 3).Draw(t, "npoller"), Dials: rapid.IntRange(1, 4).Draw(t, "dials")}
	n := rapid.IntRange(1, 3).Draw(t, "ntimeouts")
	for i := 0; i < n; i++ {
		c.TimeoutMs = append(c.TimeoutMs, rapid.SampledFrom([]int{0, 0, 20, 100, 30000}).Draw(t, "timeout"))
	}
	c.WaitMs = rapid.SampledFrom([]int{0, 1, 30, 150}).Draw(t, "wait")
	return c
}

// DialTimers: asynchronous dials with a timeout that succeed (loop-back listener that accepts). The timeout
// belongs to the dial: once the connection is established nothing of it may be left, so the connection
// stays open and usable well beyond the timeout.
type DialTimers struct {
	Mode          string `json:"mode"`
	NPoller       int    `json:"npoller"`
	Dials         int    `json:"dials"`
	TimeoutMs     int    `json:"timeout_ms"`
	YieldPerMille int    `json:"yield_per_mille,omitempty"`
}

func runDialTimers(c DialTimers) vlib.Result {
	defer vlib.Yield(c.YieldPerMille, 0xd1a1)()
	vlib.Logs.Take()
	res := vlib.Result{Classes: []string{"dial-timers", "mode=" + c.Mode}}
	conf := nbio.Config{NPoller: c.NPoller}
	vlib.ApplyMode(&conf, c.Mode)
	g := nbio.NewEngine(conf)
	var mu sync.Mutex
	closes := map[*nbio.Conn]error{}
	g.OnClose(func(nc *nbio.Conn, err error) { mu.Lock(); closes[nc] = err; mu.Unlock() })
	if err := g.Start(); err != nil {
		return vlib.Fail("harness: engine start: %v", err)
	}
	defer vlib.StopEngine(g.Stop, 10*time.Second)
	ln, err := net.Listen("tcp", "127.0.0.1:0")
	if err != nil {
		return vlib.Fail("harness: listen: %v", err)
	}
	defer ln.Close()
	var amu sync.Mutex
	var accepted []net.Conn
	go func() {
		for {
			p, err := ln.Accept()
			if err != nil {
				return
			}
			amu.Lock()
			accepted = append(accepted, p)
			amu.Unlock()
		}
	}()
	defer func() {
		amu.Lock()
		for _, p := range accepted {
			p.Close()
		}
		amu.Unlock()
	}()
	timeout := time.Duration(c.TimeoutMs) * time.Millisecond
	var cmu sync.Mutex
	var conns []*nbio.Conn
	var failed int32
	var cbs int32
	for i := 0; i < c.Dials; i++ {
		err := g.DialAsyncTimeout("tcp", ln.Addr().String(), timeout, func(nc *nbio.Conn, err error) {
			atomic.AddInt32(&cbs, 1)
			if err != nil {
				atomic.AddInt32(&failed, 1)
				return
			}
			cmu.Lock()
			conns = append(conns, nc)
			cmu.Unlock()
		})
		if err != nil {
			return vlib.Fail("harness: DialAsyncTimeout: %v", err)
		}
	}
	if !vlib.WaitUntil(3*time.Second, func() bool { return atomic.LoadInt32(&cbs) == int32(c.Dials) }) {
		res.Err = fmt.Errorf("%d of %d dial callbacks ran within 3 s (loop-back listener that accepts)", atomic.LoadInt32(&cbs), c.Dials)
		return res
	}
	if n := atomic.LoadInt32(&failed); n > 0 {
		// a loaded machine may make a 100 ms dial time out for real: nothing to say about those
		res.Classes = append(res.Classes, "some-dials-failed (not asserted)")
	}
	// established: idle beyond the dial timeout
	time.Sleep(timeout + 150*time.Millisecond)
	cmu.Lock()
	defer cmu.Unlock()
	mu.Lock()
	defer mu.Unlock()
	for i, nc := range conns {
		if err, was := closes[nc]; was {
			res.Err = fmt.Errorf("connection %d of %d was established by DialAsyncTimeout(%v) and then left alone; %v after the dial it has been closed with %q: something of the dial's timeout outlived the dial", i, len(conns), timeout, timeout+150*time.Millisecond, fmt.Sprint(err))
			return res
		}
		if _, err := nc.Write([]byte("still usable")); err != nil {
			res.Err = fmt.Errorf("connection %d established by DialAsyncTimeout(%v): Write failed %v after the dial: %v", i, timeout, timeout+150*time.Millisecond, err)
			return res
		}
	}
	res.NonTrivial = len(conns) > 0
	return res
}

func genDialTimers(t *rapid.T) DialTimers {
	c := DialTimers{Mode: rapid.SampledFrom(vlib.Modes).Draw(t, "mode"), NPoller: rapid.IntRange(1, 3).Draw(t, "npoller"), Dials: rapid.SampledFrom([]int{1, 4, 16}).Draw(t, "dials"),
		TimeoutMs: rapid.SampledFrom([]int{100, 200}).Draw(t, "timeout")}
	if vlib.YieldAvailable {
		c.YieldPerMille = rapid.SampledFrom([]int{0, 100, 300}).Draw(t, "yield")
	}
	return c
}
