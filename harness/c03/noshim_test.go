//go:build !verifshim

package c03

import "verifharness/vlib"

func runShimTier(r *vlib.Runner) {
	r.Note("syscall-shim tier unavailable in this run (overlay not generated or not buildable); decided by the real-kernel tier alone")
}
