//go:build verifshim

package c03

import (
	"errors"
	"fmt"
	"os"
	"sync"
	"sync/atomic"
	"syscall"
	"time"

	"verifharness/vlib"

	"github.com/lesismal/nbio"
	"pgregory.net/rapid"
)

// Syscall-shim tier of C03: a hard error (EPIPE, ECONNRESET, EIO, ETIMEDOUT, ENOTCONN) is injected into
// exactly one system call of the connection - the k-th write, writev, sendfile or read, wherever the
// library issues it: in the application's call, in the poller's flush, in the (a)synchronous read path.
// Whatever the position, the connection must end with exactly one close notification that reports the
// injected error (the first and only cause), and afterwards the connection refuses further use.

type FaultCase struct {
	Transport string `json:"transport"`
	Mode      string `json:"mode"`
	Async     bool   `json:"async_read"`
	Target    string `json:"target"` // write (write/writev/sendfile calls) or read
	K         int    `json:"k"`      // the k-th such call fails (1-based)
	Errno     int    `json:"errno"`
	Ops       []Op2  `json:"ops"`
	PeerReads bool   `json:"peer_reads"` // false: a backlog forms first, the peer starts reading after the ops
}

type Op2 struct {
	K    string `json:"k"` // write, writev, sendfile, peer-send
	Size int    `json:"size"`
}

func runFault(c FaultCase) vlib.Result {
	vlib.Logs.Take()
	res := vlib.Result{Classes: []string{"shim-fault", "mode=" + c.Mode, "fault-in=" + c.Target, "errno=" + syscall.Errno(c.Errno).Error()}}
	conf := nbio.Config{NPoller: 1, AsyncReadInPoller: c.Async}
	vlib.ApplyMode(&conf, c.Mode)
	g := nbio.NewEngine(conf)
	var mu sync.Mutex
	var closes []error
	var opens int
	g.OnOpen(func(*nbio.Conn) { mu.Lock(); opens++; mu.Unlock() })
	g.OnClose(func(_ *nbio.Conn, err error) { mu.Lock(); closes = append(closes, err); mu.Unlock() })
	g.OnData(func(*nbio.Conn, []byte) {})
	if err := g.Start(); err != nil {
		return vlib.Fail("harness: engine start: %v", err)
	}
	defer vlib.StopEngine(g.Stop, 10*time.Second)
	sndbuf := 0
	if !c.PeerReads {
		sndbuf = 4096
	}
	a, peer, err := vlib.StreamPair(c.Transport, sndbuf, sndbuf)
	if err != nil {
		return vlib.Fail("harness: socket pair: %v", err)
	}
	defer peer.Close()
	nbc, err := nbio.NBConn(a)
	if err != nil {
		return vlib.Fail("harness: NBConn: %v", err)
	}
	fd := fdOf(nbc)
	var idx, injected int64
	nbio.VerifSetHook(func(op string, f int, n int) (int, int) {
		if f != fd || (op == "read") != (c.Target == "read") {
			return nbio.VerifPass, 0
		}
		if atomic.AddInt64(&idx, 1) == int64(c.K) {
			atomic.StoreInt64(&injected, 1)
			return nbio.VerifErrno, c.Errno
		}
		return nbio.VerifPass, 0
	})
	defer nbio.VerifSetHook(nil)
	if _, err := g.AddConn(nbc); err != nil {
		return vlib.Fail("harness: AddConn: %v", err)
	}
	stopRead := make(chan struct{})
	readDone := make(chan struct{})
	startRead := make(chan struct{})
	go func() {
		defer close(readDone)
		if !c.PeerReads {
			select {
			case <-startRead:
			case <-stopRead:
				return
			}
		}
		buf := make([]byte, 1<<16)
		for {
			select {
			case <-stopRead:
				return
			default:
			}
			_ = peer.SetReadDeadline(time.Now().Add(20 * time.Millisecond))
			if _, err := peer.Read(buf); err != nil {
				var ne interface{ Timeout() bool }
				if errors.As(err, &ne) && ne.Timeout() {
					continue
				}
				return
			}
		}
	}()
	defer func() { close(stopRead); <-readDone }()
	tmpdir, _ := os.MkdirTemp("", "c03s")
	defer os.RemoveAll(tmpdir)
	var opErrs []error
	for _, op := range c.Ops {
		var err error
		switch op.K {
		case "write":
			_, err = nbc.Write(make([]byte, op.Size))
		case "writev":
			_, err = nbc.Writev([][]byte{make([]byte, op.Size/2), make([]byte, op.Size-op.Size/2)})
		case "sendfile":
			f, ferr := os.CreateTemp(tmpdir, "sf")
			if ferr != nil {
				return vlib.Fail("harness: temp file: %v", ferr)
			}
			_, _ = f.Write(make([]byte, op.Size))
			_, _ = f.Seek(0, 0)
			_, err = nbc.Sendfile(f, int64(op.Size))
			_ = f.Close()
		case "peer-send":
			_, _ = peer.Write(make([]byte, op.Size))
			time.Sleep(300 * time.Microsecond)
		}
		if err != nil {
			opErrs = append(opErrs, err)
		}
	}
	if !c.PeerReads {
		close(startRead)
	}
	// give the poller time to flush / read; the injection, if its call is reached at all, happens within this window
	vlib.WaitUntil(300*time.Millisecond, func() bool { return atomic.LoadInt64(&injected) == 1 })
	want := syscall.Errno(c.Errno)
	if atomic.LoadInt64(&injected) == 0 {
		// the k-th call never happened: end the connection normally
		res.Classes = append(res.Classes, "fault-not-reached")
		_ = nbc.Close()
	}
	ok := vlib.WaitUntil(3*time.Second, func() bool { mu.Lock(); defer mu.Unlock(); return len(closes) > 0 })
	if !ok {
		isClosed, _ := nbc.IsClosed()
		res.Err = fmt.Errorf("the %d. %s system call of the connection failed with %v (injected) but no close notification came within 3 s (connection closed=%v, operation errors %v)", c.K, c.Target, want, isClosed, opErrs)
		return res
	}
	time.Sleep(30 * time.Millisecond)
	mu.Lock()
	n, first, o := len(closes), closes[0], opens
	mu.Unlock()
	if n != 1 || o != 1 {
		res.Err = fmt.Errorf("%d open and %d close notifications after an injected %v in the %d. %s call", o, n, want, c.K, c.Target)
		return res
	}
	if atomic.LoadInt64(&injected) == 1 {
		if !errors.Is(first, want) {
			res.Err = fmt.Errorf("the %d. %s call failed with %v (the only cause), the close notification reports %v", c.K, c.Target, want, first)
			return res
		}
		res.NonTrivial = true
	}
	if _, err := nbc.Write([]byte("x")); err == nil {
		res.Err = fmt.Errorf("Write after the close notification returned nil")
		return res
	}
	if nbc.Execute(func() {}) {
		res.Err = fmt.Errorf("Execute after the close notification returned true")
		return res
	}
	return res
}

func genFault(t *rapid.T) FaultCase {
	c := FaultCase{Transport: rapid.SampledFrom([]string{"tcp", "unix"}).Draw(t, "transport"), Mode: rapid.SampledFrom(vlib.Modes).Draw(t, "mode"), Async: rapid.Bool().Draw(t, "async")}
	c.Target = rapid.SampledFrom([]string{"write", "write", "read"}).Draw(t, "target")
	c.K = rapid.IntRange(1, 6).Draw(t, "k")
	c.Errno = int(rapid.SampledFrom([]syscall.Errno{syscall.EPIPE, syscall.ECONNRESET, syscall.EIO, syscall.ETIMEDOUT, syscall.ENOTCONN}).Draw(t, "errno"))
	c.PeerReads = rapid.Bool().Draw(t, "peerreads")
	n := rapid.IntRange(1, 6).Draw(t, "nops")
	for i := 0; i < n; i++ {
		kinds := []string{"write", "write", "writev", "sendfile", "peer-send"}
		if c.Target == "read" {
			kinds = []string{"peer-send", "peer-send", "write"}
		}
		c.Ops = append(c.Ops, Op2{K: rapid.SampledFrom(kinds).Draw(t, "op"), Size: rapid.SampledFrom([]int{1, 100, 4096, 70000, 300000}).Draw(t, "size")})
	}
	return c
}

func runShimTier(r *vlib.Runner) {
	vlib.RunCheck(r, vlib.Check[FaultCase]{Name: "shim-faults", N: r.Pick(2400, 60000), Gen: genFault, Run: runFault, Confirm: true, RecordCurrent: true})
}
