package c03

import (
	"errors"
	"fmt"
	"io"
	"net"
	"os"
	"sync"
	"sync/atomic"
	"syscall"
	"testing"
	"time"

	"verifharness/vlib"

	"github.com/lesismal/nbio"
	"pgregory.net/rapid"
)

type Cause struct {
	K       string `json:"k"` // close, closeerr, peerclose, peerreset, readdl, writedl, writetoreset, overflow
	DelayUs int    `json:"delay_us"`
	Threads int    `json:"threads,omitempty"` // close/closeerr: concurrent callers
}

type ConnSpec struct {
	Birth     string  `json:"birth"` // accept, add, dial, dial-refused, dial-timeout, udp
	Transport string  `json:"transport"`
	Traffic   bool    `json:"traffic"`
	Causes    []Cause `json:"causes"`
	// CloseInOpen: the open callback itself closes the connection (accept/add births)
	CloseInOpen bool `json:"close_inside_onopen,omitempty"`
	// DialWithTimeout: birth "dial" goes through DialAsyncTimeout with a generous timeout (the dial timer is
	// armed and must be gone once the connection is established)
	DialWithTimeout bool `json:"dial_with_timeout,omitempty"`
}

type Case struct {
	Mode    string     `json:"mode"`
	NPoller int        `json:"npoller"`
	Async   bool       `json:"async_read"`
	Conns   []ConnSpec `json:"conns"`
	Stop    bool       `json:"stop_engine_as_cause"`
	StopUs  int        `json:"stop_delay_us"`
}

type record struct {
	mu      sync.Mutex
	seq     int64
	opens   map[*nbio.Conn]int64
	closes  map[*nbio.Conn][]error
	closeAt map[*nbio.Conn]int64
}

func (r *record) open(c *nbio.Conn) {
	r.mu.Lock()
	r.seq++
	if _, ok := r.opens[c]; !ok {
		r.opens[c] = r.seq
	} else {
		r.opens[c] = -r.seq // opened twice
	}
	r.mu.Unlock()
}
func (r *record) close(c *nbio.Conn, err error) {
	r.mu.Lock()
	r.seq++
	r.closes[c] = append(r.closes[c], err)
	if _, ok := r.closeAt[c]; !ok {
		r.closeAt[c] = r.seq
	}
	r.mu.Unlock()
}

var userErrs = []error{errors.New("user error 0"), errors.New("user error 1"), errors.New("user error 2"), errors.New("user error 3")}

func fdOf(c *nbio.Conn) int {
	fd := -1
	if rc, err := c.SyscallConn(); err == nil {
		_ = rc.Control(func(f uintptr) { fd = int(f) })
	}
	return fd
}

func stdFD(c net.Conn) int {
	fd := -1
	if sc, ok := c.(interface {
		SyscallConn() (syscall.RawConn, error)
	}); ok {
		if rc, err := sc.SyscallConn(); err == nil {
			_ = rc.Control(func(f uintptr) { fd = int(f) })
		}
	}
	return fd
}

var (
	refusedOnce sync.Once
	refusedA    string
)

// refusedAddr returns an address that refuses connections for the life of the process: a socket that
// is bound (so no other process can take the port meanwhile) but never listens.
func refusedAddr() string {
	refusedOnce.Do(func() {
		fd, err := syscall.Socket(syscall.AF_INET, syscall.SOCK_STREAM, 0)
		if err != nil {
			return
		}
		if syscall.Bind(fd, &syscall.SockaddrInet4{Addr: [4]byte{127, 0, 0, 1}}) != nil {
			return
		}
		sa, _ := syscall.Getsockname(fd)
		refusedA = fmt.Sprintf("127.0.0.1:%d", sa.(*syscall.SockaddrInet4).Port)
	})
	return refusedA
}

// fullBacklogListener returns the address of a listening socket whose accept queue is full, so that
// further connects neither complete nor are refused.
func fullBacklogListener() (addr string, cleanup func(), err error) {
	fd, err := syscall.Socket(syscall.AF_INET, syscall.SOCK_STREAM, 0)
	if err != nil {
		return "", nil, err
	}
	if err = syscall.Bind(fd, &syscall.SockaddrInet4{Addr: [4]byte{127, 0, 0, 1}}); err != nil {
		syscall.Close(fd)
		return "", nil, err
	}
	if err = syscall.Listen(fd, 0); err != nil {
		syscall.Close(fd)
		return "", nil, err
	}
	sa, _ := syscall.Getsockname(fd)
	port := sa.(*syscall.SockaddrInet4).Port
	addr = fmt.Sprintf("127.0.0.1:%d", port)
	var held []net.Conn
	for i := 0; i < 8; i++ {
		c, e := net.DialTimeout("tcp", addr, 60*time.Millisecond)
		if e != nil {
			break // the queue is full now
		}
		held = append(held, c)
	}
	return addr, func() {
		for _, c := range held {
			c.Close()
		}
		syscall.Close(fd)
	}, nil
}

func errClass(err error) string {
	switch {
	case err == nil:
		return "nil"
	case errors.Is(err, io.EOF):
		return "eof"
	case errors.Is(err, syscall.ECONNRESET), errors.Is(err, syscall.EPIPE):
		return "reset"
	case errors.Is(err, nbio.ErrReadTimeout):
		return "readtimeout"
	case errors.Is(err, nbio.ErrWriteTimeout):
		return "writetimeout"
	case errors.Is(err, nbio.ErrOverflow):
		return "overflow"
	case errors.Is(err, nbio.ErrDialTimeout):
		return "dialtimeout"
	case errors.Is(err, syscall.ECONNREFUSED):
		return "refused"
	}
	for i, e := range userErrs {
		if err == e {
			return fmt.Sprintf("user%d", i)
		}
	}
	return "other:" + err.Error()
}

func allowed(k string, idx int) []string {
	switch k {
	case "close", "stop":
		return []string{"nil"}
	case "closeerr":
		return []string{fmt.Sprintf("user%d", idx%len(userErrs))}
	case "peerclose":
		// a peer that closes with unread data in its receive buffer makes the kernel send a reset
		return []string{"eof", "reset"}
	case "peerreset":
		return []string{"reset", "eof"}
	case "readdl":
		return []string{"readtimeout"}
	case "writedl", "writedl-bare":
		return []string{"writetimeout"}
	case "writetoreset":
		return []string{"reset", "eof"}
	case "overflow":
		return []string{"overflow"}
	}
	return nil
}

type liveConn struct {
	spec              ConnSpec
	idx               int
	nbc               *nbio.Conn
	peer              net.Conn
	udpPeer           *net.UDPConn
	dialCB            []error // one entry per callback invocation
	dialMu            sync.Mutex
	dialC             *nbio.Conn
	expectEstablished bool
	accepted          net.Conn // dial: the listener's accepted socket
}

func runCase(c Case) vlib.Result {
	res := vlib.Result{Classes: []string{"mode=" + c.Mode}}
	var dataCalls int64
	var refuseNext int32
	rec := &record{opens: map[*nbio.Conn]int64{}, closes: map[*nbio.Conn][]error{}, closeAt: map[*nbio.Conn]int64{}}
	conf := nbio.Config{NPoller: c.NPoller, MaxWriteBufferSize: 64 * 1024, AsyncReadInPoller: c.Async}
	vlib.ApplyMode(&conf, c.Mode)
	needTCPListener, needUnixListener, needUDP := false, false, false
	for _, cs := range c.Conns {
		switch {
		case cs.Birth == "accept" && cs.Transport == "unix":
			needUnixListener = true
		case cs.Birth == "accept":
			needTCPListener = true
		case cs.Birth == "udp":
			needUDP = true
		}
	}
	// one engine can listen on one network only: accepted unix/udp connections get their own engines
	engines := map[string]*nbio.Engine{}
	tmp, _ := os.MkdirTemp("", "c03")
	defer os.RemoveAll(tmp)
	mk := func(network, addr string) (*nbio.Engine, error) {
		cf := conf
		if network != "" {
			cf.Network = network
			cf.Addrs = []string{addr}
		}
		if network == "udp" {
			cf.UDPReadTimeout = 10 * time.Second
		}
		g := nbio.NewEngine(cf)
		g.OnOpen(func(conn *nbio.Conn) {
			rec.open(conn)
			if atomic.CompareAndSwapInt32(&refuseNext, 1, 0) {
				_ = conn.Close()
			}
		})
		g.OnClose(rec.close)
		g.OnData(func(*nbio.Conn, []byte) { atomic.AddInt64(&dataCalls, 1) })
		return g, g.Start()
	}
	var err error
	if engines["main"], err = mk("", ""); err != nil {
		return vlib.Fail("harness: engine start: %v", err)
	}
	if needTCPListener {
		if engines["tcp"], err = mk("tcp", "127.0.0.1:0"); err != nil {
			return vlib.Fail("harness: tcp engine start: %v", err)
		}
	}
	if needUnixListener {
		if engines["unix"], err = mk("unix", tmp+"/l.sock"); err != nil {
			return vlib.Fail("harness: unix engine start: %v", err)
		}
	}
	if needUDP {
		if engines["udp"], err = mk("udp", "127.0.0.1:0"); err != nil {
			return vlib.Fail("harness: udp engine start: %v", err)
		}
	}
	stopped := false
	stopAll := func() bool {
		if stopped {
			return true
		}
		stopped = true
		ok := true
		for _, g := range engines {
			if !vlib.StopEngine(g.Stop, 10*time.Second) {
				ok = false
			}
		}
		return ok
	}
	defer stopAll()

	// helper listeners for dials
	var liveLn net.Listener
	acceptedCh := make(chan net.Conn, 16)
	var backlogAddr string
	for _, cs := range c.Conns {
		if cs.Birth == "dial" && liveLn == nil {
			liveLn, err = net.Listen("tcp", "127.0.0.1:0")
			if err != nil {
				return vlib.Fail("harness: listen: %v", err)
			}
			defer liveLn.Close()
			go func() {
				for {
					a, err := liveLn.Accept()
					if err != nil {
						return
					}
					acceptedCh <- a
				}
			}()
		}
		if cs.Birth == "dial-timeout" && backlogAddr == "" {
			var cleanup func()
			backlogAddr, cleanup, err = fullBacklogListener()
			if err != nil {
				return vlib.Fail("harness: backlog listener: %v", err)
			}
			defer cleanup()
		}
	}

	// create the connections
	var lcs []*liveConn
	for i, cs := range c.Conns {
		lc := &liveConn{spec: cs, idx: i}
		lcs = append(lcs, lc)
		if cs.CloseInOpen && (cs.Birth == "add" || cs.Birth == "accept") {
			atomic.StoreInt32(&refuseNext, 1)
			res.Classes = append(res.Classes, "cause=close-inside-onopen")
		}
		switch cs.Birth {
		case "add":
			a, peer, err := vlib.StreamPair(cs.Transport, 4096, 4096)
			if err != nil {
				return vlib.Fail("harness: pair: %v", err)
			}
			lc.peer = peer
			lc.nbc, err = engines["main"].AddConn(a)
			if err != nil && !cs.CloseInOpen {
				return vlib.Fail("harness: AddConn: %v", err)
			}
			if err != nil {
				lc.nbc = nil // refused inside OnOpen; the global open/close balance below still covers it
			}
		case "accept":
			g := engines[cs.Transport]
			before := map[*nbio.Conn]bool{}
			rec.mu.Lock()
			for k := range rec.opens {
				before[k] = true
			}
			rec.mu.Unlock()
			peer, err := net.DialTimeout(cs.Transport, g.Addrs[0], 3*time.Second)
			if err != nil {
				return vlib.Fail("harness: dial engine listener: %v", err)
			}
			lc.peer = peer
			ok := vlib.WaitUntil(3*time.Second, func() bool {
				rec.mu.Lock()
				defer rec.mu.Unlock()
				for k := range rec.opens {
					if !before[k] && k.RemoteAddr() != nil && (cs.Transport == "unix" || k.RemoteAddr().String() == peer.LocalAddr().String()) {
						lc.nbc = k
						return true
					}
				}
				return false
			})
			if !ok {
				res.Err = fmt.Errorf("connection %d: accepted connection got no open notification within 3 s", i)
				return res
			}
		case "udp":
			g := engines["udp"]
			ua, _ := net.ResolveUDPAddr("udp", g.Addrs[0])
			up, err := net.DialUDP("udp", nil, ua)
			if err != nil {
				return vlib.Fail("harness: udp dial: %v", err)
			}
			lc.udpPeer = up
			defer up.Close()
			_, _ = up.Write([]byte("hello"))
			ok := vlib.WaitUntil(3*time.Second, func() bool {
				rec.mu.Lock()
				defer rec.mu.Unlock()
				for k := range rec.opens {
					if k.RemoteAddr() != nil && k.RemoteAddr().String() == up.LocalAddr().String() {
						lc.nbc = k
						return true
					}
				}
				return false
			})
			if !ok {
				rec.mu.Lock()
				var seen []string
				for k := range rec.opens {
					seen = append(seen, fmt.Sprint(k.RemoteAddr()))
				}
				rec.mu.Unlock()
				res.Err = fmt.Errorf("connection %d: udp session (remote %s -> %s) got no open notification within 3 s; opens so far: %v; data callbacks: %d", i, up.LocalAddr(), g.Addrs[0], seen, atomic.LoadInt64(&dataCalls))
				return res
			}
		case "dial", "dial-refused", "dial-timeout":
			var addr string
			var timeout time.Duration
			switch cs.Birth {
			case "dial":
				addr = liveLn.Addr().String()
				lc.expectEstablished = true
				if cs.DialWithTimeout {
					timeout = 5 * time.Second
					res.Classes = append(res.Classes, "dial-with-timeout-established")
				}
			case "dial-refused":
				addr = refusedAddr()
			default:
				addr = backlogAddr
				timeout = 150 * time.Millisecond
			}
			cb := func(conn *nbio.Conn, err error) {
				lc.dialMu.Lock()
				lc.dialCB = append(lc.dialCB, err)
				lc.dialC = conn
				lc.dialMu.Unlock()
			}
			var derr error
			if timeout > 0 {
				derr = engines["main"].DialAsyncTimeout("tcp", addr, timeout, cb)
			} else {
				derr = engines["main"].DialAsync("tcp", addr, cb)
			}
			if derr != nil {
				// a synchronous failure is a truthful outcome as well
				lc.dialMu.Lock()
				lc.dialCB = append(lc.dialCB, derr)
				lc.dialMu.Unlock()
			}
			wait := 3 * time.Second
			vlib.WaitUntil(wait, func() bool {
				lc.dialMu.Lock()
				defer lc.dialMu.Unlock()
				return len(lc.dialCB) > 0
			})
			lc.dialMu.Lock()
			ncb := len(lc.dialCB)
			var first error
			if ncb > 0 {
				first = lc.dialCB[0]
			}
			lc.nbc = lc.dialC
			lc.dialMu.Unlock()
			if ncb == 0 {
				res.Err = fmt.Errorf("connection %d (%s): the dial callback was not invoked within %v", i, cs.Birth, wait)
				return res
			}
			switch cs.Birth {
			case "dial":
				if first != nil {
					res.Err = fmt.Errorf("connection %d: dial to a live listener reported %v", i, first)
					return res
				}
				select {
				case lc.accepted = <-acceptedCh:
				case <-time.After(3 * time.Second):
					res.Err = fmt.Errorf("connection %d: dial reported success but the listener accepted nothing", i)
					return res
				}
				lc.peer = lc.accepted
				if cs.DialWithTimeout {
					// established (the listener accepted it); no byte is written through it, so that the next thing
					// to touch the write timer is the termination cause itself
					break
				}
				if _, err := lc.nbc.Write([]byte{0x5A}); err != nil {
					res.Err = fmt.Errorf("connection %d: dial reported success but Write failed: %v", i, err)
					return res
				}
				one := make([]byte, 1)
				_ = lc.accepted.SetReadDeadline(time.Now().Add(3 * time.Second))
				if _, err := io.ReadFull(lc.accepted, one); err != nil || one[0] != 0x5A {
					res.Err = fmt.Errorf("connection %d: dial reported success but the byte written through it did not reach the accepted socket (%v)", i, err)
					return res
				}
			case "dial-refused":
				if first == nil {
					res.Err = fmt.Errorf("connection %d: dial to a closed port reported success", i)
					return res
				}
			case "dial-timeout":
				if first == nil {
					res.Err = fmt.Errorf("connection %d: dial that cannot complete reported success", i)
					return res
				}
				if !errors.Is(first, nbio.ErrDialTimeout) {
					res.Err = fmt.Errorf("connection %d: timed-out dial reported %v, want ErrDialTimeout", i, first)
					return res
				}
			}
			res.Classes = append(res.Classes, "birth="+cs.Birth)
		}
		if cs.Birth != "dial" && cs.Birth != "dial-refused" && cs.Birth != "dial-timeout" {
			res.Classes = append(res.Classes, "birth="+cs.Birth+"/"+cs.Transport)
		}
		if cs.Traffic && lc.peer != nil {
			_, _ = lc.peer.Write([]byte("some traffic"))
		}
	}

	// issue the causes
	var wg sync.WaitGroup
	var postCloseErr atomic.Value
	var fdReused, fdNotReused int64
	for _, lc := range lcs {
		if lc.nbc == nil || lc.spec.Birth == "dial-refused" || lc.spec.Birth == "dial-timeout" {
			continue
		}
		for ci, cause := range lc.spec.Causes {
			lc, ci, cause := lc, ci, cause
			nthreads := cause.Threads
			if nthreads < 1 || (cause.K != "close" && cause.K != "closeerr") {
				nthreads = 1
			}
			for th := 0; th < nthreads; th++ {
				wg.Add(1)
				go func(th int) {
					defer wg.Done()
					time.Sleep(time.Duration(cause.DelayUs) * time.Microsecond)
					switch cause.K {
					case "close", "closeerr":
						fd := fdOf(lc.nbc)
						if cause.K == "close" {
							_ = lc.nbc.Close()
						} else {
							_ = lc.nbc.CloseWithError(userErrs[ci%len(userErrs)])
						}
						// Close has returned: the connection must refuse everything and not touch the descriptor
						var probeA, probeB net.Conn
						if lc.spec.Birth != "udp" {
							probeA, probeB, _ = vlib.StreamPair("tcp", 0, 0)
						}
						if _, err := lc.nbc.Write([]byte("POSTCLOSE-WRITE")); err == nil {
							postCloseErr.Store(fmt.Sprintf("connection %d: Write after Close returned nil error", lc.idx))
						}
						if _, err := lc.nbc.Writev([][]byte{[]byte("POSTCLOSE"), []byte("-WRITEV")}); err == nil {
							postCloseErr.Store(fmt.Sprintf("connection %d: Writev after Close returned nil error", lc.idx))
						}
						if f, err := os.CreateTemp("", "c03sf"); err == nil {
							_, _ = f.Write([]byte("POSTCLOSE-SENDFILE"))
							_, _ = f.Seek(0, io.SeekStart)
							if _, err := lc.nbc.Sendfile(f, 0); err == nil {
								postCloseErr.Store(fmt.Sprintf("connection %d: Sendfile after Close returned nil error", lc.idx))
							}
							f.Close()
							os.Remove(f.Name())
						}
						if lc.nbc.Execute(func() {}) {
							postCloseErr.Store(fmt.Sprintf("connection %d: Execute after Close returned true", lc.idx))
						}
						_ = lc.nbc.Close() // idempotent
						if probeA != nil {
							reused := stdFD(probeA) == fd || stdFD(probeB) == fd
							var victim net.Conn
							if stdFD(probeA) == fd {
								victim = probeB
							} else if stdFD(probeB) == fd {
								victim = probeA
							}
							if reused && victim != nil {
								atomic.AddInt64(&fdReused, 1)
								buf := make([]byte, 64)
								_ = victim.SetReadDeadline(time.Now().Add(15 * time.Millisecond))
								if n, _ := victim.Read(buf); n > 0 {
									postCloseErr.Store(fmt.Sprintf("connection %d: after Close the descriptor number %d was reused by a new socket and a post-close write reached it: %q", lc.idx, fd, buf[:n]))
								}
							} else {
								atomic.AddInt64(&fdNotReused, 1)
							}
							probeA.Close()
							probeB.Close()
						}
					case "peerclose":
						if lc.peer != nil {
							_ = lc.peer.Close()
						} else if lc.udpPeer != nil {
							_ = lc.nbc.Close() // a udp peer cannot close the session; treat as Close
						}
					case "peerreset":
						if tc, ok := lc.peer.(*net.TCPConn); ok {
							_ = tc.SetLinger(0)
						}
						if lc.peer != nil {
							_ = lc.peer.Close()
						}
					case "readdl":
						_ = lc.nbc.SetReadDeadline(time.Now().Add(40 * time.Millisecond))
					case "writedl":
						_, _ = lc.nbc.Write(make([]byte, 20000)) // peer does not read: a backlog stays (3 x 20000 stays below the 64 KiB limit)
						_ = lc.nbc.SetWriteDeadline(time.Now().Add(40 * time.Millisecond))
					case "writedl-bare":
						// a write deadline without any write before it
						_ = lc.nbc.SetWriteDeadline(time.Now().Add(40 * time.Millisecond))
					case "writetoreset":
						if tc, ok := lc.peer.(*net.TCPConn); ok {
							_ = tc.SetLinger(0)
						}
						if lc.peer != nil {
							_ = lc.peer.Close()
						}
						for k := 0; k < 50; k++ {
							if _, err := lc.nbc.Write([]byte("to a reset peer")); err != nil {
								break
							}
							time.Sleep(time.Millisecond)
						}
					case "overflow":
						_, _ = lc.nbc.Write(make([]byte, 300000))
					}
				}(th)
			}
		}
	}
	if c.Stop {
		wg.Add(1)
		go func() {
			defer wg.Done()
			time.Sleep(time.Duration(c.StopUs) * time.Microsecond)
			if !stopAll() {
				postCloseErr.Store("engine Stop did not return within 10 s")
			}
		}()
	}
	wg.Wait()

	// every connection that had a cause must get its close notification
	for _, lc := range lcs {
		if lc.nbc == nil {
			continue
		}
		expectClose := len(lc.spec.Causes) > 0 || c.Stop
		if lc.spec.Birth == "dial-refused" || lc.spec.Birth == "dial-timeout" {
			expectClose = false
		}
		if expectClose {
			ok := vlib.WaitUntil(3*time.Second, func() bool {
				rec.mu.Lock()
				defer rec.mu.Unlock()
				return len(rec.closes[lc.nbc]) > 0
			})
			if !ok {
				res.Err = fmt.Errorf("connection %d (%s, causes %+v, stop=%v): no close notification within 3 s", lc.idx, lc.spec.Birth, lc.spec.Causes, c.Stop)
				return res
			}
		}
	}
	if !stopAll() {
		res.Err = fmt.Errorf("engine Stop did not return within 10 s")
		return res
	}
	time.Sleep(150 * time.Millisecond) // duplicates would show up now
	if v := postCloseErr.Load(); v != nil {
		res.Err = fmt.Errorf("%s", v.(string))
		return res
	}
	rec.mu.Lock()
	defer rec.mu.Unlock()
	for _, lc := range lcs {
		isDial := lc.spec.Birth == "dial" || lc.spec.Birth == "dial-refused" || lc.spec.Birth == "dial-timeout"
		if isDial {
			lc.dialMu.Lock()
			n := len(lc.dialCB)
			lc.dialMu.Unlock()
			if n != 1 {
				res.Err = fmt.Errorf("connection %d (%s): the dial callback was invoked %d times", lc.idx, lc.spec.Birth, n)
				return res
			}
		}
		if lc.nbc == nil {
			continue
		}
		closes := rec.closes[lc.nbc]
		if len(closes) > 1 {
			res.Err = fmt.Errorf("connection %d (%s): %d close notifications (%v)", lc.idx, lc.spec.Birth, len(closes), closes)
			return res
		}
		if lc.spec.Birth == "dial-refused" || lc.spec.Birth == "dial-timeout" {
			continue
		}
		if len(closes) == 0 {
			res.Err = fmt.Errorf("connection %d (%s): engine stopped but no close notification was delivered", lc.idx, lc.spec.Birth)
			return res
		}
		if !isDial {
			o, ok := rec.opens[lc.nbc]
			if !ok || o < 0 {
				res.Err = fmt.Errorf("connection %d (%s): open notifications: %v", lc.idx, lc.spec.Birth, o)
				return res
			}
			if rec.closeAt[lc.nbc] < o {
				res.Err = fmt.Errorf("connection %d: close notification before the open notification", lc.idx)
				return res
			}
		}
		// reported error
		allow := map[string]bool{}
		for ci, cause := range lc.spec.Causes {
			for _, a := range allowed(cause.K, ci) {
				allow[a] = true
			}
			if cause.K == "peerclose" && lc.udpPeer != nil {
				allow["nil"] = true
			}
		}
		if c.Stop || len(lc.spec.Causes) == 0 || lc.spec.CloseInOpen {
			allow["nil"] = true
		}
		got := errClass(closes[0])
		if !allow[got] {
			var ks []string
			for k := range allow {
				ks = append(ks, k)
			}
			res.Err = fmt.Errorf("connection %d (%s): close notification reports %q (%v); the issued causes %+v (stop=%v) allow only %v", lc.idx, lc.spec.Birth, got, closes[0], lc.spec.Causes, c.Stop, ks)
			return res
		}
		res.Classes = append(res.Classes, "closeerr="+got)
	}
	// every connection that got an open notification has exactly one close notification once the
	// engines are stopped (whoever closed it, including the open callback itself)
	for conn, o := range rec.opens {
		if n := len(rec.closes[conn]); n != 1 {
			res.Err = fmt.Errorf("a connection (%v, open seq %d) got %d close notifications by the time its engine had stopped", conn.RemoteAddr(), o, n)
			return res
		}
		if rec.closeAt[conn] < o {
			res.Err = fmt.Errorf("a connection (%v) got its close notification before its open notification", conn.RemoteAddr())
			return res
		}
	}
	for conn, cl := range rec.closes {
		if len(cl) > 1 {
			res.Err = fmt.Errorf("a connection (%v) got %d close notifications", conn.RemoteAddr(), len(cl))
			return res
		}
	}
	if fdReused > 0 {
		res.Classes = append(res.Classes, "fd-reuse-probed")
	}
	if fdNotReused > 0 {
		res.Classes = append(res.Classes, "fd-not-reused(clause skipped)")
	}
	for _, cs := range c.Conns {
		for _, cause := range cs.Causes {
			res.Classes = append(res.Classes, "cause="+cause.K)
			if cause.K != "close" || cause.Threads > 1 {
				res.NonTrivial = true
			}
		}
		if len(cs.Causes) > 1 || cs.Birth[:3] == "dia" {
			res.NonTrivial = true
		}
	}
	if c.Stop {
		res.Classes = append(res.Classes, "cause=stop")
		res.NonTrivial = true
	}
	return res
}

func gen(t *rapid.T) Case {
	c := Case{Mode: rapid.SampledFrom(vlib.Modes).Draw(t, "mode"), NPoller: rapid.IntRange(1, 3).Draw(t, "npoller"), Async: rapid.IntRange(0, 3).Draw(t, "async") == 0}
	n := rapid.IntRange(1, 4).Draw(t, "nconns")
	for i := 0; i < n; i++ {
		cs := ConnSpec{Birth: rapid.SampledFrom([]string{"add", "add", "accept", "accept", "dial", "dial", "dial-refused", "dial-timeout", "udp"}).Draw(t, "birth")}
		if cs.Birth == "dial" {
			cs.DialWithTimeout = rapid.Bool().Draw(t, "dialwithtimeout")
		}
		cs.Transport = rapid.SampledFrom([]string{"tcp", "tcp", "unix"}).Draw(t, "transport")
		if cs.Birth == "udp" {
			cs.Transport = "udp"
		}
		if cs.Birth[:3] == "dia" {
			cs.Transport = "tcp"
		}
		cs.Traffic = rapid.Bool().Draw(t, "traffic")
		if (cs.Birth == "add" || cs.Birth == "accept") && rapid.IntRange(0, 5).Draw(t, "closeinopen") == 0 {
			cs.CloseInOpen = true
		}
		nc := rapid.IntRange(0, 3).Draw(t, "ncauses")
		kinds := []string{"close", "close", "closeerr", "closeerr", "peerclose", "peerreset", "readdl", "writedl", "writedl-bare", "writetoreset", "overflow"}
		if cs.Birth == "udp" {
			kinds = []string{"close", "closeerr", "readdl"}
		}
		if cs.Transport == "unix" {
			kinds = []string{"close", "close", "closeerr", "peerclose", "readdl", "writedl", "writedl-bare", "overflow"}
		}
		for j := 0; j < nc; j++ {
			cause := Cause{K: rapid.SampledFrom(kinds).Draw(t, "cause"), DelayUs: rapid.SampledFrom([]int{0, 0, 50, 300, 1000, 3000}).Draw(t, "delayus")}
			if cause.K == "close" || cause.K == "closeerr" {
				cause.Threads = rapid.SampledFrom([]int{1, 1, 2, 4, 8}).Draw(t, "threads")
			}
			cs.Causes = append(cs.Causes, cause)
		}
		c.Conns = append(c.Conns, cs)
	}
	c.Stop = rapid.IntRange(0, 3).Draw(t, "stop") == 0
	c.StopUs = rapid.SampledFrom([]int{0, 100, 1000, 5000}).Draw(t, "stopus")
	return c
}

// dialCells: every quick run executes these: a connection dialed with a timeout (the dial timer is armed while the
// connect is pending and must be gone once it is established) that is then ended by each kind of deadline or by
// the application, alone and beside other connections, in every epoll mode. The generated search reaches these
// shapes too, but only a few times per run and with the arming of the dial timer left to a race.
func dialCells() []Case {
	var out []Case
	for _, m := range vlib.Modes {
		for _, async := range []bool{false, true} {
			if async && m == vlib.ModeLT {
				continue
			}
			for _, k := range []string{"writedl-bare", "writedl", "readdl", "close"} {
				dial := ConnSpec{Birth: "dial", Transport: "tcp", DialWithTimeout: true, Causes: []Cause{{K: k}}}
				out = append(out, Case{Mode: m, NPoller: 1, Async: async, Conns: []ConnSpec{dial}, StopUs: 5000})
				out = append(out, Case{Mode: m, NPoller: 2, Async: async, StopUs: 5000, Conns: []ConnSpec{
					{Birth: "add", Transport: "tcp", Traffic: true, Causes: []Cause{{K: "peerclose", DelayUs: 2000}}},
					dial,
					{Birth: "accept", Transport: "tcp", Causes: []Cause{{K: "readdl"}}}}})
			}
		}
	}
	return out
}

func TestCheck(t *testing.T) {
	r := vlib.NewRunner(t, "C03")
	vlib.RunCases(r, "dial-cells", dialCells(), runCase, true)
	vlib.RunCheck(r, vlib.Check[Case]{Name: "lifecycle", N: r.Pick(400, 10000), Gen: gen, Run: runCase, Confirm: true, RecordCurrent: true})
	vlib.RunCheck(r, vlib.Check[Churn]{Name: "churn", N: r.Pick(160, 4000), Gen: genChurn, Run: runChurn, Confirm: true, RecordCurrent: true})
	vlib.RunCheck(r, vlib.Check[PendingDials]{Name: "pending-dials", N: r.Pick(240, 6000), Gen: genPendingDials, Run: runPendingDials, Confirm: true, RecordCurrent: true})
	vlib.RunCheck(r, vlib.Check[DialTimers]{Name: "dial-timers", N: r.Pick(160, 4000), Gen: genDialTimers, Run: runDialTimers, Confirm: true, RecordCurrent: true})
	runShimTier(r)
	r.Finish()
}
