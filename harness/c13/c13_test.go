package c13

import (
	"bytes"
	"encoding/binary"
	"fmt"
	"strings"
	"testing"
	"time"

	"verifharness/vlib"

	"github.com/lesismal/nbio/nbhttp"
	"github.com/lesismal/nbio/nbhttp/websocket"
)

var inline = func(f func()) { f() }

type delivered struct {
	op      int
	payload []byte
}

func runCase(c Case) vlib.Result {
	return vlib.WithWatchdog(60*time.Second, "the WebSocket receive path", func() vlib.Result { return runCaseInner(c) })
}

func runCaseInner(c Case) vlib.Result {
	res := vlib.Result{}
	if c.Violation != "" {
		res.Classes = append(res.Classes, "violation="+c.Violation)
	} else {
		res.Classes = append(res.Classes, "valid-sequence")
	}
	// reference automaton
	m := &vlib.WSModel{Compression: c.Compression}
	frames := append([]vlib.WSFrame(nil), c.Frames...)
	for i, f := range frames {
		if !m.Step(f) {
			if m.Closed {
				// anything after a close frame is left open: do not feed it
				frames = frames[:i+1]
			}
			break
		}
	}
	if m.Failed {
		// give the library the chance to report a deferred failure
		frames = append(frames, vlib.WSFrame{Fin: true, Op: vlib.OpCont, Masked: !c.ReceiverClient, Key: 7, Payload: []byte("t")},
			vlib.WSFrame{Fin: true, Op: vlib.OpText, Masked: !c.ReceiverClient, Key: 9, Payload: []byte("after")})
	}
	var wire []byte
	for _, f := range frames {
		wire = append(wire, f.Encode()...)
	}

	conn := &vlib.FakeConn{}
	engine := nbhttp.NewEngine(nbhttp.Config{ServerExecutor: inline, ClientExecutor: inline, SupportServerOnly: true})
	u := websocket.NewUpgrader()
	u.Engine = engine
	u.KeepaliveTime = 0
	u.MessageLengthLimit = 0
	u.EnableCompression(c.Compression)
	var got []delivered
	if c.Handlers != "dataframe" {
		u.OnMessage(func(_ *websocket.Conn, mt websocket.MessageType, data []byte) {
			got = append(got, delivered{int(mt), append([]byte(nil), data...)})
		})
	}
	dataFrames := 0
	if c.Handlers != "" {
		u.OnDataFrame(func(_ *websocket.Conn, mt websocket.MessageType, fin bool, data []byte) { dataFrames++ })
		res.Classes = append(res.Classes, "handlers="+c.Handlers)
	}
	type closeCall struct {
		code int
		text string
	}
	var closeCalls []closeCall
	if c.CloseHandler {
		u.SetCloseHandler(func(_ *websocket.Conn, code int, text string) {
			closeCalls = append(closeCalls, closeCall{code, text})
		})
	}
	var wsc *websocket.Conn
	if c.ReceiverClient {
		wsc = websocket.NewClientConn(u, conn, "", c.Compression, false)
	} else {
		wsc = websocket.NewServerConn(u, conn, "", c.Compression, false)
	}
	wsc.Execute = func(f func()) bool {
		if conn.IsClosed() {
			return false
		}
		f()
		return true
	}
	if c.WriteCompOff {
		wsc.EnableWriteCompression(false)
		res.Classes = append(res.Classes, "write-compression-switched-off")
	}
	var segs [][]byte
	if c.ByteAtATime {
		lim := len(wire)
		if lim > 4000 {
			lim = 4000
		}
		for i := 0; i < lim; i++ {
			segs = append(segs, wire[i:i+1])
		}
		if lim < len(wire) {
			segs = append(segs, wire[lim:])
		}
	} else {
		segs = vlib.Split(wire, c.Cuts)
	}
	var perr error
	for _, s := range segs {
		if conn.IsClosed() {
			// the engine stops delivering data once the connection is closed
			break
		}
		cp := append([]byte(nil), s...)
		if perr = wsc.Parse(cp); perr != nil {
			break
		}
	}
	libFailedOrClosed := perr != nil || conn.IsClosed()
	wsc.CloseAndClean(perr)
	if pl := vlib.Panics(vlib.Logs.Take()); len(pl) > 0 {
		res.Classes = append(res.Classes, "recovered-panic-logged")
	}

	// frames written back
	back, _, _ := vlib.DecodeWSFrames(conn.Bytes())
	var pongs [][]byte
	var closeReply *vlib.WSFrame
	for i := range back {
		switch back[i].Op {
		case vlib.OpPong:
			pongs = append(pongs, back[i].Payload)
		case vlib.OpClose:
			if closeReply == nil {
				closeReply = &back[i]
			}
		}
	}

	frameOnly := c.Handlers == "dataframe"
	if frameOnly && m.Failed {
		switch {
		case strings.HasPrefix(m.FailReason, "text message is not valid UTF-8"), strings.HasPrefix(m.FailReason, "payload does not inflate"),
			strings.Contains(m.FailReason, "larger than the limit"):
			// message-level rules: nobody assembles a message in this configuration
			res.Classes = append(res.Classes, "outcome=message-level offence with frame handler only (not asserted)")
			return res
		}
	}
	cmpDelivered := func(prefixOnly bool) error {
		if frameOnly {
			return nil
		}
		n := len(m.Delivered)
		if len(got) > n {
			return fmt.Errorf("library delivered %d messages, the automaton only %d: extra message type %d payload %s (a message at or after the offending frame)", len(got), n, got[n].op, vlib.Preview(got[n].payload, 60))
		}
		if !prefixOnly && len(got) < n {
			return fmt.Errorf("library delivered %d messages, the automaton %d", len(got), n)
		}
		for i := range got {
			if got[i].op != m.Delivered[i].Op || !bytes.Equal(got[i].payload, m.Delivered[i].Payload) {
				return fmt.Errorf("message %d differs: library (type %d, %d bytes) automaton (type %d, %d bytes)", i, got[i].op, len(got[i].payload), m.Delivered[i].Op, len(m.Delivered[i].Payload))
			}
		}
		return nil
	}

	switch {
	case m.Open:
		res.Classes = append(res.Classes, "outcome=open(not asserted)")
		if err := cmpDelivered(true); err != nil {
			// only the messages before the open point are comparable
			_ = err
		}
		return res
	case m.Failed:
		res.Classes = append(res.Classes, "outcome=must-fail")
		if !libFailedOrClosed {
			res.Err = fmt.Errorf("RFC 6455 violation accepted (%s): no Parse error and the connection is still open after the terminator; %d messages delivered", m.FailReason, len(got))
			return res
		}
		if err := cmpDelivered(false); err != nil {
			res.Err = fmt.Errorf("violation: %s; %v", m.FailReason, err)
			return res
		}
		var wireCode int
		if n, _ := fmt.Sscanf(m.FailReason, "illegal close code %d", &wireCode); n == 1 {
			// the offending frame is a close frame that carries this illegal code on the wire (1005 included:
			// it is the handler's value for "no code", and exactly therefore must never be taken from the wire)
			for _, cc := range closeCalls {
				if cc.code == wireCode {
					res.Err = fmt.Errorf("a close frame carrying the illegal code %d was handed to the user close handler as a close with code %d instead of failing the connection", wireCode, cc.code)
					return res
				}
			}
		}
		for _, cc := range closeCalls {
			if vlib.CloseCodeClass(cc.code) == -1 && cc.code != 1005 && cc.code != 1002 {
				res.Err = fmt.Errorf("user close handler invoked with the illegal close code %d", cc.code)
				return res
			}
		}
		if closeReply != nil && len(closeReply.Payload) >= 2 {
			code := int(binary.BigEndian.Uint16(closeReply.Payload[:2]))
			if vlib.CloseCodeClass(code) == -1 {
				res.Err = fmt.Errorf("the endpoint answered with the illegal close code %d (%s)", code, m.FailReason)
				return res
			}
		}
	case m.Closed:
		res.Classes = append(res.Classes, "outcome=legal-close")
		if perr != nil {
			res.Err = fmt.Errorf("legal close frame (code %d) made Parse fail: %v", m.CloseCode, perr)
			return res
		}
		if !conn.IsClosed() {
			res.Err = fmt.Errorf("legal close frame (code %d) did not close the connection", m.CloseCode)
			return res
		}
		if err := cmpDelivered(false); err != nil {
			res.Err = err
			return res
		}
		if c.CloseHandler {
			if len(closeCalls) != 1 || closeCalls[0].code != m.CloseCode || closeCalls[0].text != m.CloseText {
				res.Err = fmt.Errorf("user close handler calls %v, want exactly one with (%d, %q)", closeCalls, m.CloseCode, m.CloseText)
				return res
			}
		} else {
			if closeReply == nil {
				res.Err = fmt.Errorf("close frame (code %d) was not answered by a close frame", m.CloseCode)
				return res
			}
			if m.CloseCode == 1005 {
				if len(closeReply.Payload) != 0 {
					res.Err = fmt.Errorf("empty close frame answered with payload %x", closeReply.Payload)
					return res
				}
			} else if len(closeReply.Payload) < 2 || int(binary.BigEndian.Uint16(closeReply.Payload[:2])) != m.CloseCode {
				res.Err = fmt.Errorf("legal close code %d not echoed: reply payload %x", m.CloseCode, closeReply.Payload)
				return res
			}
		}
	default:
		res.Classes = append(res.Classes, "outcome=must-accept")
		if libFailedOrClosed {
			res.Err = fmt.Errorf("valid frame sequence failed the connection: Parse error %v, closed=%v (delivered %d of %d)", perr, conn.IsClosed(), len(got), len(m.Delivered))
			return res
		}
		if err := cmpDelivered(false); err != nil {
			res.Err = err
			return res
		}
	}
	// pings are answered in order with the same payload. Pings received before the end (or before the
	// offending frame) must all be answered; a library that detects an offence late may also have
	// answered pings that follow it, so after a failure the pongs only have to be a prefix-consistent
	// answer to the pings actually on the wire.
	var allPings [][]byte
	openPing := false
	for _, f := range frames {
		if f.Op == vlib.OpPing && f.Fin && len(f.Payload) <= 125 && !f.R1 && !f.R2 && !f.R3 && !f.TopBit {
			allPings = append(allPings, f.Payload)
		}
		if f.Op == vlib.OpPing && f.R1 && c.Compression {
			// RSV1 on a control frame with compression negotiated is left open by the model: the
			// library may or may not answer it, with whatever payload
			openPing = true
		}
	}
	if openPing && m.Failed {
		// only the pings the model owes an answer for are asserted (in order, as a prefix)
		if len(pongs) < len(m.OwedPongs) {
			res.Err = fmt.Errorf("%d pings were received, only %d pongs written", len(m.OwedPongs), len(pongs))
			return res
		}
		for i := range m.OwedPongs {
			if !bytes.Equal(pongs[i], m.OwedPongs[i]) {
				res.Err = fmt.Errorf("pong %d carries %q, the ping carried %q", i, pongs[i], m.OwedPongs[i])
				return res
			}
		}
		res.Classes = append(res.Classes, "open: RSV1 ping behind an offence")
		res.NonTrivial = true
		return res
	}
	if len(pongs) < len(m.OwedPongs) {
		res.Err = fmt.Errorf("%d pings were received, only %d pongs written", len(m.OwedPongs), len(pongs))
		return res
	}
	if !m.Failed && len(pongs) != len(m.OwedPongs) {
		res.Err = fmt.Errorf("%d pings received, %d pongs written", len(m.OwedPongs), len(pongs))
		return res
	}
	if len(pongs) > len(allPings) {
		res.Err = fmt.Errorf("%d pongs written but only %d pings on the wire", len(pongs), len(allPings))
		return res
	}
	for i := range pongs {
		if !bytes.Equal(pongs[i], allPings[i]) {
			res.Err = fmt.Errorf("pong %d carries %q, the ping carried %q", i, pongs[i], allPings[i])
			return res
		}
	}
	res.NonTrivial = len(c.Frames) >= 2 || c.Violation != "" || len(c.Cuts) > 0 || c.ByteAtATime
	return res
}

func headerSpace() []Case {
	var out []Case
	for _, rc := range []bool{false, true} {
		for _, comp := range []bool{false, true} {
			for fin := 0; fin < 2; fin++ {
				for rsv := 0; rsv < 8; rsv++ {
					for op := 0; op < 16; op++ {
						for mask := 0; mask < 2; mask++ {
							for enc := 0; enc < 3; enc++ {
								var payload []byte
								switch enc {
								case 0:
									payload = []byte("hello")
								case 1:
									payload = bytes.Repeat([]byte("m"), 200)
								default:
									payload = bytes.Repeat([]byte("L"), 65600)
								}
								if op == vlib.OpClose {
									copy(payload, closePayload(1000, nil))
								}
								if rsv&4 != 0 && comp && (op == vlib.OpText || op == vlib.OpBin) {
									payload = vlib.Deflate(payload, 6)
									// keep the length-encoding class meaningful only for enc 0; compressed payloads shrink
								}
								f := vlib.WSFrame{Fin: fin == 1, R1: rsv&4 != 0, R2: rsv&2 != 0, R3: rsv&1 != 0, Op: op, Masked: mask == 1, Key: 0xA1B2C3D4, Payload: payload}
								out = append(out, Case{ReceiverClient: rc, Compression: comp, Frames: []vlib.WSFrame{f}, Violation: ""})
							}
						}
					}
				}
			}
		}
	}
	return out
}

func closeCodeSpace() []Case {
	var out []Case
	for code := 0; code < 65536; code++ {
		f := vlib.WSFrame{Fin: true, Op: vlib.OpClose, Masked: true, Key: 0x01020304, Payload: closePayload(code, []byte("x"))}
		out = append(out, Case{ReceiverClient: false, Compression: false, CloseHandler: true, Frames: []vlib.WSFrame{f}})
		if code < 5100 {
			// around the assigned ranges also without a user close handler (the library's default handler)
			out = append(out, Case{ReceiverClient: false, Compression: false, CloseHandler: false, Frames: []vlib.WSFrame{f}})
		}
	}
	return out
}

func TestCheck(t *testing.T) {
	r := vlib.NewRunner(t, "C13")
	vlib.RunCases(r, "header-space", headerSpace(), runCase, false)
	r.MarkExhaustive("single-frame header space: FIN x RSV1-3 x 16 opcodes x mask x 3 length encodings x role x compression (6144 cases)")
	vlib.RunCases(r, "close-codes", closeCodeSpace(), runCase, false)
	r.MarkExhaustive("all 65536 close codes (with a user close handler; codes below 5100 also with the default handler)")
	vlib.RunCheck(r, vlib.Check[Case]{Name: "sequences", N: r.Pick(60000, 1500000), Gen: Gen, Run: runCase})
	vlib.RunCases(r, "path-cells", pathCells(), runPath, true)
	vlib.RunCheck(r, vlib.Check[PathCase]{Name: "paths", N: r.Pick(600, 12000), Gen: genPath, Run: runPath, Confirm: true, RecordCurrent: true})
	r.Finish()
}
