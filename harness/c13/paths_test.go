package c13

import (
	"bytes"
	"crypto/tls"
	"fmt"
	"net"
	"net/http"
	"sync"
	"time"

	"verifharness/vlib"

	"github.com/lesismal/nbio/nbhttp"
	"github.com/lesismal/nbio/nbhttp/websocket"
	"pgregory.net/rapid"
)

// End-to-end tier: the same frame sequences and the same reference automaton, but sent by a real client
// over a real connection to a server, on every upgrade path (poller-driven, blocking with parser, blocking
// with its own read loop, transferred to the poller) and with TLS where the engine terminates it. The
// in-memory tier decides what Parse does; this tier decides that each path acts on it: an offending frame
// must fail the connection (the client sees it closed) and nothing at or after the offence is delivered.
type PathCase struct {
	Path string `json:"path"` // nb, blocking-parser, blocking-transfer, std-readloop, std-transfer
	TLS  bool   `json:"tls"`
	Mode string `json:"mode"`
	Seq  Case   `json:"seq"`
	// Split: the frames are written in this many pieces (1 = one write)
	Split int `json:"split"`
}

var pathNames = []string{"nb", "blocking-parser", "blocking-transfer", "std-readloop", "std-transfer", "std-handleread"}

func runPath(c PathCase) vlib.Result {
	res := vlib.Result{Classes: []string{fmt.Sprintf("pathcell=%s/tls=%v", c.Path, c.TLS)}}
	vlib.Logs.Take()
	// expected outcome
	m := &vlib.WSModel{Compression: false}
	frames := append([]vlib.WSFrame(nil), c.Seq.Frames...)
	offence := -1
	for i, f := range frames {
		f.Masked = true
		if !m.Step(f) {
			if m.Closed {
				// nothing is sent behind a legal close frame: unread input in the server's socket would make
				// the kernel answer the server's close with a reset that can destroy the close reply in flight
				frames = frames[:i+1]
			}
			if m.Failed {
				offence = i
			}
			break
		}
	}
	// Messages made only of frames that FOLLOW the offending frame: a path that runs its handlers through an
	// executor may deliver such a message, when it arrived in the same read, before the failure takes effect.
	// The statement forbids delivering a message that contains the offending frame, not those (the in-memory
	// tier additionally shows that Parse itself stops at the offence).
	later := map[string]int{}
	if m.Failed {
		// give the library the chance to report a failure it detects late (as the in-memory tier does)
		frames = append(frames, vlib.WSFrame{Fin: true, Op: vlib.OpCont, Payload: []byte("t")}, vlib.WSFrame{Fin: true, Op: vlib.OpText, Payload: []byte("after")})
		for j := offence + 1; j < len(frames); j++ {
			m2 := &vlib.WSModel{Compression: false}
			for _, f := range frames[j:] {
				f.Masked = true
				if !m2.Step(f) {
					break
				}
			}
			for _, d := range m2.Delivered {
				later[fmt.Sprintf("%d/%x", d.Op, d.Payload)]++
			}
		}
	}
	if m.Failed && offence >= 0 && offence < len(frames) && frames[offence].Op >= 8 {
		// an offending CONTROL frame in the middle of a fragmented message is not part of that message: the
		// message around it may be completed and delivered before the failure takes effect
		m3 := &vlib.WSModel{Compression: false}
		for j, f := range frames {
			if j == offence {
				continue
			}
			f.Masked = true
			if !m3.Step(f) {
				break
			}
		}
		for _, d := range m3.Delivered[min(len(m3.Delivered), len(m.Delivered)):] {
			later[fmt.Sprintf("%d/%x", d.Op, d.Payload)]++
		}
	}
	nframes := len(frames)
	c.Seq.Frames = frames
	type msg struct {
		op      int
		payload []byte
	}
	var mu sync.Mutex
	var got []msg
	var closes int
	u := websocket.NewUpgrader()
	u.KeepaliveTime = 0
	u.OnMessage(func(wc *websocket.Conn, mt websocket.MessageType, data []byte) {
		mu.Lock()
		got = append(got, msg{int(mt), append([]byte(nil), data...)})
		mu.Unlock()
	})
	u.OnClose(func(*websocket.Conn, error) { mu.Lock(); closes++; mu.Unlock() })
	transfer := c.Path == "blocking-transfer" || c.Path == "std-transfer"
	manualRead := c.Path == "std-handleread"
	handler := http.HandlerFunc(func(w http.ResponseWriter, r *http.Request) {
		if manualRead {
			// the application starts the read loop itself, with a buffer size of its choice
			if wc, err := u.UpgradeWithoutHandlingReadForConnFromSTDServer(w, r, nil); err == nil {
				go wc.HandleRead(61)
			}
		} else if transfer {
			_, _ = u.UpgradeAndTransferConnToPoller(w, r, nil)
		} else {
			_, _ = u.Upgrade(w, r, nil)
		}
	})
	conf := nbhttp.Config{Network: "tcp", NPoller: 2, Handler: handler}
	vlib.ApplyHTTPMode(&conf, c.Mode)
	std := c.Path == "std-readloop" || c.Path == "std-transfer" || c.Path == "std-handleread"
	if !std {
		if c.TLS {
			conf.AddrsTLS = []string{"127.0.0.1:0"}
			conf.TLSConfig = vlib.ServerTLSConfig()
		} else {
			conf.Addrs = []string{"127.0.0.1:0"}
		}
		conf.IOMod = nbhttp.IOModNonBlocking
		if c.Path != "nb" {
			conf.IOMod = nbhttp.IOModBlocking
		}
	}
	engine := nbhttp.NewEngine(conf)
	u.Engine = engine
	if err := engine.Start(); err != nil {
		return vlib.Fail("harness: http engine start: %v", err)
	}
	defer vlib.StopEngine(engine.Stop, 10*time.Second)
	addr := ""
	if std {
		ln, err := net.Listen("tcp", "127.0.0.1:0")
		if err != nil {
			return vlib.Fail("harness: listen: %v", err)
		}
		srv := &http.Server{Handler: handler}
		go srv.Serve(ln)
		defer srv.Close()
		addr = ln.Addr().String()
	} else if c.TLS {
		addr = engine.AddrsTLS[0]
	} else {
		addr = engine.Addrs[0]
	}
	var conn net.Conn
	var err error
	if c.TLS {
		conn, err = tls.DialWithDialer(&net.Dialer{Timeout: 3 * time.Second}, "tcp", addr, &tls.Config{InsecureSkipVerify: true})
	} else {
		conn, err = net.DialTimeout("tcp", addr, 3*time.Second)
	}
	if err != nil {
		return vlib.Fail("harness: dial: %v", err)
	}
	defer conn.Close()
	cl, err := vlib.WSHandshake(conn, "/ws", false)
	if err != nil {
		res.Err = fmt.Errorf("websocket handshake failed on path %s (tls=%v): %v", c.Path, c.TLS, err)
		return res
	}
	var wire []byte
	for i, f := range c.Seq.Frames[:nframes] {
		f.Masked = true
		f.Key = uint32(i*2654435761 + 17)
		wire = append(wire, f.Encode()...)
	}
	// reader: collect what the server sends until it closes the connection
	type rd struct {
		frames []vlib.WSFrame
		closed bool // the connection was closed by the server (EOF / reset), not a read timeout
	}
	done := make(chan rd, 1)
	go func() {
		var r rd
		for {
			_ = conn.SetReadDeadline(time.Now().Add(3 * time.Second))
			f, err := cl.ReadFrame()
			if err != nil {
				ne, ok := err.(net.Error)
				r.closed = !(ok && ne.Timeout())
				done <- r
				return
			}
			r.frames = append(r.frames, f)
		}
	}()
	n := c.Split
	if n < 1 {
		n = 1
	}
	for i := 0; i < n; i++ {
		lo, hi := len(wire)*i/n, len(wire)*(i+1)/n
		if hi > lo {
			if _, err := conn.Write(wire[lo:hi]); err != nil {
				break // the server may already have failed the connection
			}
			if n > 1 {
				time.Sleep(300 * time.Microsecond)
			}
		}
	}
	mustEnd := m.Failed || m.Closed
	if !mustEnd && !m.Open {
		// a valid sequence without a close: wait for the deliveries, then the client leaves
		vlib.WaitUntil(3*time.Second, func() bool { mu.Lock(); defer mu.Unlock(); return len(got) >= len(m.Delivered) })
		time.Sleep(2 * time.Millisecond)
		_ = conn.Close()
	}
	r := <-done
	time.Sleep(5 * time.Millisecond)
	mu.Lock()
	delivered := append([]msg(nil), got...)
	mu.Unlock()
	if m.Open {
		res.Classes = append(res.Classes, "outcome=open(not asserted)")
		return res
	}
	// nothing at or after the offence / the close may be delivered; everything before it must be
	for _, x := range delivered[min(len(delivered), len(m.Delivered)):] {
		if later[fmt.Sprintf("%d/%x", x.op, x.payload)] == 0 {
			res.Err = fmt.Errorf("path %s (tls=%v): the server delivered %d messages, the automaton only %d (%s): extra message type %d payload %s is not a message made of later frames only (it contains the offending frame or was never sent)", c.Path, c.TLS, len(delivered), len(m.Delivered), m.FailReason, x.op, vlib.Preview(x.payload, 60))
			return res
		}
		res.Classes = append(res.Classes, "later-message-delivered-before-failure-took-effect")
	}
	if len(delivered) > len(m.Delivered) {
		delivered = delivered[:len(m.Delivered)]
	}
	if len(delivered) < len(m.Delivered) {
		res.Err = fmt.Errorf("path %s (tls=%v): the server delivered %d of the %d messages that precede the end of the sequence", c.Path, c.TLS, len(delivered), len(m.Delivered))
		return res
	}
	for i := range delivered {
		if delivered[i].op != m.Delivered[i].Op || !bytes.Equal(delivered[i].payload, m.Delivered[i].Payload) {
			res.Err = fmt.Errorf("path %s (tls=%v): message %d differs from what was sent", c.Path, c.TLS, i)
			return res
		}
	}
	switch {
	case m.Failed:
		res.Classes = append(res.Classes, "outcome=must-fail")
		if !r.closed {
			res.Err = fmt.Errorf("path %s (tls=%v): RFC 6455 violation (%s) did not fail the connection: it is still open 3 s later", c.Path, c.TLS, m.FailReason)
			return res
		}
		res.NonTrivial = true
	case m.Closed:
		res.Classes = append(res.Classes, "outcome=legal-close")
		if !r.closed {
			res.Err = fmt.Errorf("path %s (tls=%v): a legal close frame (code %d) did not end the connection within 3 s", c.Path, c.TLS, m.CloseCode)
			return res
		}
		sawClose := false
		for _, f := range r.frames {
			if f.Op == vlib.OpClose {
				sawClose = true
			}
		}
		if !sawClose {
			res.Err = fmt.Errorf("path %s (tls=%v): a legal close frame (code %d) was not answered by a close frame", c.Path, c.TLS, m.CloseCode)
			return res
		}
		res.NonTrivial = true
	default:
		res.Classes = append(res.Classes, "outcome=must-accept")
		// pings are answered in order with the same payload
		var pongs [][]byte
		for _, f := range r.frames {
			if f.Op == vlib.OpPong {
				pongs = append(pongs, f.Payload)
			}
		}
		if len(pongs) != len(m.OwedPongs) {
			res.Err = fmt.Errorf("path %s (tls=%v): %d pings sent, %d pongs received", c.Path, c.TLS, len(m.OwedPongs), len(pongs))
			return res
		}
		for i := range pongs {
			if !bytes.Equal(pongs[i], m.OwedPongs[i]) {
				res.Err = fmt.Errorf("path %s (tls=%v): pong %d carries %q, the ping carried %q", c.Path, c.TLS, i, pongs[i], m.OwedPongs[i])
				return res
			}
		}
		res.NonTrivial = len(c.Seq.Frames) >= 2
	}
	return res
}

func pathCells() []PathCase {
	var out []PathCase
	hello := []byte("Hel")
	for _, p := range pathNames {
		for _, tl := range []bool{false, true} {
			if tl && (p == "std-readloop" || p == "std-transfer" || p == "std-handleread") {
				continue
			}
			// offence in the middle of a fragmented message, a valid message before it
			out = append(out, PathCase{Path: p, TLS: tl, Mode: vlib.ModeLT, Split: 1, Seq: Case{Frames: []vlib.WSFrame{
				{Fin: true, Op: vlib.OpText, Payload: []byte("first")},
				{Fin: false, Op: vlib.OpText, Payload: hello},
				{Fin: true, Op: vlib.OpText, Payload: []byte("new data frame inside a fragmented message")},
				{Fin: true, Op: vlib.OpText, Payload: []byte("after the offence")},
			}}})
			// reserved opcode
			out = append(out, PathCase{Path: p, TLS: tl, Mode: vlib.ModeLT, Split: 2, Seq: Case{Frames: []vlib.WSFrame{
				{Fin: true, Op: vlib.OpBin, Payload: []byte{1, 2, 3}},
				{Fin: true, Op: 3, Payload: []byte("reserved")},
				{Fin: true, Op: vlib.OpBin, Payload: []byte{4}},
			}}})
			// legal traffic with ping and close
			out = append(out, PathCase{Path: p, TLS: tl, Mode: vlib.ModeLT, Split: 1, Seq: Case{Frames: []vlib.WSFrame{
				{Fin: false, Op: vlib.OpText, Payload: hello},
				{Fin: true, Op: vlib.OpPing, Payload: []byte("p")},
				{Fin: true, Op: vlib.OpCont, Payload: []byte("lo")},
				{Fin: true, Op: vlib.OpClose, Payload: closePayload(1000, []byte("bye"))},
			}}})
		}
	}
	return out
}

func genPath(t *rapid.T) PathCase {
	c := PathCase{Path: rapid.SampledFrom(pathNames).Draw(t, "path"), Mode: rapid.SampledFrom(vlib.Modes).Draw(t, "mode")}
	if c.Path != "std-readloop" && c.Path != "std-transfer" && c.Path != "std-handleread" {
		c.TLS = rapid.Bool().Draw(t, "tls")
	}
	if rapid.IntRange(0, 2).Draw(t, "bulk") == 0 {
		// valid bulk traffic: messages up to a few hundred KiB, fragmented, with interleaved pings - what the
		// path-specific read loops (TLS records, read buffers, transferred connections) have to reassemble
		n := rapid.IntRange(1, 5).Draw(t, "nbulk")
		for i := 0; i < n; i++ {
			size := rapid.SampledFrom([]int{0, 1, 125, 126, 4096, 16384, 16385, 65536, 200000}).Draw(t, "bulksize")
			frag := rapid.SampledFrom([]int{0, 1000, 16384, 70000}).Draw(t, "bulkfrag")
			payload := vlib.FillTagged(i&3, int64(i)*1000003, size)
			op := vlib.OpBin
			for first := true; first || len(payload) > 0; first = false {
				k := len(payload)
				if frag > 0 && k > frag {
					k = frag
				}
				f := vlib.WSFrame{Fin: k == len(payload), Op: vlib.OpCont, Payload: payload[:k]}
				if first {
					f.Op = op
				}
				c.Seq.Frames = append(c.Seq.Frames, f)
				payload = payload[k:]
				if !f.Fin && rapid.IntRange(0, 5).Draw(t, "bulkping") == 0 {
					c.Seq.Frames = append(c.Seq.Frames, vlib.WSFrame{Fin: true, Op: vlib.OpPing, Payload: []byte(fmt.Sprintf("p%d", i))})
				}
			}
		}
		c.Split = rapid.SampledFrom([]int{1, 3, 17}).Draw(t, "split")
		return c
	}
	c.Seq = Gen(t)
	c.Seq.ReceiverClient, c.Seq.Compression, c.Seq.Cuts, c.Seq.ByteAtATime = false, false, nil, false
	c.Split = rapid.SampledFrom([]int{1, 1, 2, 5}).Draw(t, "split")
	return c
}
