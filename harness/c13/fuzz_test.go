package c13

import (
	"testing"

	"verifharness/vlib"
)

// FuzzFrames: coverage-guided frame stream; the bytes are decoded into frames by the reference codec
// (undecodable tails are dropped) and run through the automaton comparison of C13.
func FuzzFrames(f *testing.F) {
	mk := func(fr ...vlib.WSFrame) []byte {
		var b []byte
		for _, x := range fr {
			b = append(b, x.Encode()...)
		}
		return b
	}
	f.Add(mk(vlib.WSFrame{Fin: true, Op: vlib.OpText, Masked: true, Key: 1, Payload: []byte("hello")}), uint32(1), false, false)
	f.Add(mk(vlib.WSFrame{Fin: false, Op: vlib.OpText, Masked: true, Key: 2, Payload: []byte("a\xe4")}, vlib.WSFrame{Fin: true, Op: vlib.OpPing, Masked: true, Key: 3, Payload: []byte("p")}, vlib.WSFrame{Fin: true, Op: vlib.OpCont, Masked: true, Key: 4, Payload: []byte("\xb8\x96")}), uint32(2), false, true)
	f.Add(mk(vlib.WSFrame{Fin: true, Op: vlib.OpClose, Masked: true, Key: 5, Payload: []byte{0x03, 0xe8, 'o', 'k'}}), uint32(3), true, false)
	f.Add(mk(vlib.WSFrame{Fin: true, R1: true, Op: vlib.OpBin, Payload: vlib.Deflate([]byte("compressed compressed compressed"), 6)}), uint32(7), true, true)
	f.Add([]byte{0x81, 0xff, 0x80, 0, 0, 0, 0, 0, 0, 1, 'x'}, uint32(0), false, false)
	f.Fuzz(func(t *testing.T, data []byte, seed uint32, receiverClient bool, compression bool) {
		if len(data) < 2 || len(data) > 1<<17 {
			return
		}
		frames, _, _ := vlib.DecodeWSFrames(data)
		if len(frames) == 0 || len(frames) > 64 {
			return
		}
		// the reference decoder marks top-bit lengths as an error and stops; keep what decoded
		c := Case{ReceiverClient: receiverClient, Compression: compression, Frames: frames, CloseHandler: seed%2 == 1}
		total := 0
		for _, fr := range frames {
			total += len(fr.Encode())
		}
		c.Cuts = vlib.CutsFromSeed(total, seed)
		if res := runCase(c); res.Err != nil {
			p := vlib.FuzzFail("C13", "sequences", c, res.Err.Error())
			t.Fatalf("%v (replay %s)", res.Err, p)
		}
	})
}
