package c13

import (
	"bytes"
	"encoding/binary"
	"fmt"

	"verifharness/vlib"

	"pgregory.net/rapid"
)

type Case struct {
	ReceiverClient bool           `json:"receiver_client"`
	Compression    bool           `json:"compression"`
	CloseHandler   bool           `json:"user_close_handler"`
	Frames         []vlib.WSFrame `json:"frames"`
	Cuts           []int          `json:"cuts,omitempty"`
	ByteAtATime    bool           `json:"byte_at_a_time,omitempty"`
	Violation      string         `json:"violation,omitempty"`
	// Handlers: which receive handlers the application installed: "" = OnMessage, "both" = OnMessage and
	// OnDataFrame, "dataframe" = OnDataFrame only (frames are handed through one by one: the frame-level rules
	// are asserted, the message-level ones - UTF-8 of the assembled text, inflating, limits - are not)
	Handlers string `json:"handlers,omitempty"`
	// WriteCompOff: the application switched compression of its own messages off on this connection
	// (Conn.EnableWriteCompression(false)); what the peer may send is decided by the negotiation alone
	WriteCompOff bool `json:"write_compression_off,omitempty"`
}

// ---------- generators ----------

var badUTF8 = [][]byte{{0xC0, 0xAF}, {0xED, 0xA0, 0x80}, {0xE4, 0xB8}, {0xF4, 0x90, 0x80, 0x80}, {0xFF}, {0x80}, {'a', 0xC3}, {0xE0, 0x80, 0xAF}}

func closePayload(code int, reason []byte) []byte {
	b := make([]byte, 2+len(reason))
	binary.BigEndian.PutUint16(b, uint16(code))
	copy(b[2:], reason)
	return b
}

func genCloseCode(t *rapid.T) int {
	switch rapid.IntRange(0, 9).Draw(t, "codecls") {
	case 0:
		return rapid.IntRange(0, 999).Draw(t, "code_lt1000")
	case 1, 2:
		return rapid.SampledFrom([]int{1000, 1001, 1002, 1003, 1007, 1008, 1009, 1010, 1011}).Draw(t, "code_ok")
	case 3:
		return rapid.SampledFrom([]int{1004, 1005, 1006, 1015}).Draw(t, "code_reserved")
	case 4:
		return rapid.SampledFrom([]int{1012, 1013, 1014}).Draw(t, "code_open")
	case 5:
		return rapid.IntRange(1016, 2999).Draw(t, "code_unassigned")
	case 6, 7:
		return rapid.IntRange(3000, 4999).Draw(t, "code_private")
	default:
		return rapid.IntRange(5000, 65535).Draw(t, "code_ge5000")
	}
}

// Gen draws a frame sequence with zero or one injected violation.
func Gen(t *rapid.T) Case {
	c := Case{ReceiverClient: rapid.Bool().Draw(t, "receiver_client"), Compression: rapid.Bool().Draw(t, "compression"), CloseHandler: rapid.Bool().Draw(t, "closehandler")}
	c.Handlers = rapid.SampledFrom([]string{"", "", "", "both", "dataframe"}).Draw(t, "handlers")
	c.WriteCompOff = c.Compression && rapid.IntRange(0, 3).Draw(t, "writecompoff") == 0
	masked := !c.ReceiverClient
	if rapid.IntRange(0, 7).Draw(t, "flipmask") == 0 {
		masked = !masked
	}
	key := uint32(rapid.IntRange(1, 1<<30).Draw(t, "key"))
	mk := func(f vlib.WSFrame) vlib.WSFrame {
		f.Masked = masked
		key = key*1664525 + 1013904223
		f.Key = key
		return f
	}
	var frames []vlib.WSFrame
	inFrag := []bool{} // inFrag[i]: a fragmented message is in progress after frame i
	nmsg := rapid.IntRange(0, 3).Draw(t, "nmsg")
	for i := 0; i < nmsg; i++ {
		text := rapid.Bool().Draw(t, "text")
		var payload []byte
		if text {
			payload = vlib.GenPayload("utf8", rapid.IntRange(0, 40).Draw(t, "len"), uint32(i))
		} else {
			payload = vlib.GenPayload("random", rapid.IntRange(0, 40).Draw(t, "len"), uint32(i))
		}
		compressed := c.Compression && rapid.Bool().Draw(t, "msgcompressed")
		data := payload
		if compressed {
			data = vlib.Deflate(payload, 6)
		}
		nfr := rapid.IntRange(1, 4).Draw(t, "nfrag")
		op := vlib.OpBin
		if text {
			op = vlib.OpText
		}
		for j := 0; j < nfr; j++ {
			var part []byte
			if j == nfr-1 {
				part = data
			} else {
				k := rapid.IntRange(0, len(data)).Draw(t, "fraglen")
				part, data = data[:k], data[k:]
			}
			f := vlib.WSFrame{Fin: j == nfr-1, Op: vlib.OpCont, Payload: append([]byte(nil), part...)}
			if j == 0 {
				f.Op = op
				f.R1 = compressed
			}
			frames = append(frames, mk(f))
			inFrag = append(inFrag, j != nfr-1)
			if rapid.IntRange(0, 3).Draw(t, "ctl") == 0 {
				cop := rapid.SampledFrom([]int{vlib.OpPing, vlib.OpPing, vlib.OpPong}).Draw(t, "ctlop")
				frames = append(frames, mk(vlib.WSFrame{Fin: true, Op: cop, Payload: []byte(fmt.Sprintf("p%d-%d", i, j))}))
				inFrag = append(inFrag, j != nfr-1)
			}
		}
	}
	// optional legal close at the end
	if rapid.IntRange(0, 3).Draw(t, "endclose") == 0 {
		switch rapid.IntRange(0, 2).Draw(t, "closekind") {
		case 0:
			frames = append(frames, mk(vlib.WSFrame{Fin: true, Op: vlib.OpClose}))
		default:
			frames = append(frames, mk(vlib.WSFrame{Fin: true, Op: vlib.OpClose, Payload: closePayload(genCloseCode(t), []byte("bye é"))}))
		}
		inFrag = append(inFrag, false)
	}
	// inject at most one violation
	if rapid.IntRange(0, 9).Draw(t, "inject") < 7 {
		pos := rapid.IntRange(0, len(frames)).Draw(t, "pos") // insert before frames[pos] or modify frames[pos]
		insert := func(f vlib.WSFrame) {
			frames = append(frames[:pos], append([]vlib.WSFrame{mk(f)}, frames[pos:]...)...)
		}
		fragBefore := pos > 0 && inFrag[pos-1]
		kind := rapid.SampledFrom([]string{"rsv", "opcode", "ctl-nofin", "ctl-big16", "ctl-big64", "stray-cont", "data-in-frag", "bad-utf8", "bad-utf8-split", "close-len1", "close-bad-reason", "close-code", "topbit", "good-utf8-split"}).Draw(t, "vkind")
		c.Violation = kind
		switch kind {
		case "rsv":
			if len(frames) == 0 || pos == len(frames) {
				insert(vlib.WSFrame{Fin: true, Op: vlib.OpPing, R2: true, Payload: []byte("x")})
			} else {
				switch rapid.IntRange(0, 2).Draw(t, "whichrsv") {
				case 0:
					frames[pos].R2 = true
				case 1:
					frames[pos].R3 = true
				default:
					if c.Compression {
						frames[pos].R3 = true
					} else {
						frames[pos].R1 = true
					}
				}
			}
		case "opcode":
			op := rapid.SampledFrom([]int{3, 4, 5, 6, 7, 0xB, 0xC, 0xD, 0xE, 0xF}).Draw(t, "badop")
			insert(vlib.WSFrame{Fin: true, Op: op, Payload: []byte("zz")})
		case "ctl-nofin":
			insert(vlib.WSFrame{Fin: false, Op: rapid.SampledFrom([]int{vlib.OpPing, vlib.OpPong, vlib.OpClose}).Draw(t, "cop"), Payload: closePayload(1000, nil)})
		case "ctl-big16":
			insert(vlib.WSFrame{Fin: true, Op: rapid.SampledFrom([]int{vlib.OpPing, vlib.OpPong, vlib.OpClose}).Draw(t, "cop"), Payload: append(closePayload(1000, nil), bytes.Repeat([]byte("a"), rapid.IntRange(124, 300).Draw(t, "biglen"))...)})
		case "ctl-big64":
			insert(vlib.WSFrame{Fin: true, Op: rapid.SampledFrom([]int{vlib.OpPing, vlib.OpPong, vlib.OpClose}).Draw(t, "cop"), Payload: append(closePayload(1000, nil), bytes.Repeat([]byte("a"), 65536)...)})
		case "stray-cont":
			if fragBefore {
				c.Violation = "" // a continuation here is legal; leave the sequence valid
			} else {
				insert(vlib.WSFrame{Fin: rapid.Bool().Draw(t, "fin"), Op: vlib.OpCont, Payload: []byte("stray")})
			}
		case "data-in-frag":
			if !fragBefore {
				c.Violation = ""
			} else {
				insert(vlib.WSFrame{Fin: rapid.Bool().Draw(t, "fin"), Op: rapid.SampledFrom([]int{vlib.OpText, vlib.OpBin}).Draw(t, "dop"), Payload: []byte("new")})
			}
		case "bad-utf8":
			if fragBefore {
				c.Violation = ""
			} else {
				bad := rapid.SampledFrom(badUTF8).Draw(t, "badutf8")
				insert(vlib.WSFrame{Fin: true, Op: vlib.OpText, Payload: append([]byte("ok "), bad...)})
			}
		case "bad-utf8-split":
			if fragBefore {
				c.Violation = ""
			} else {
				bad := rapid.SampledFrom(badUTF8).Draw(t, "badutf8")
				f1 := vlib.WSFrame{Fin: false, Op: vlib.OpText, Payload: []byte("世")}
				f2 := vlib.WSFrame{Fin: true, Op: vlib.OpCont, Payload: bad}
				frames = append(frames[:pos], append([]vlib.WSFrame{mk(f1), mk(f2)}, frames[pos:]...)...)
			}
		case "good-utf8-split":
			c.Violation = ""
			if !fragBefore {
				s := []byte("a世b😀c")
				k := rapid.IntRange(1, len(s)-1).Draw(t, "splitat")
				f1 := vlib.WSFrame{Fin: false, Op: vlib.OpText, Payload: s[:k]}
				f2 := vlib.WSFrame{Fin: true, Op: vlib.OpCont, Payload: s[k:]}
				frames = append(frames[:pos], append([]vlib.WSFrame{mk(f1), mk(f2)}, frames[pos:]...)...)
			}
		case "close-len1":
			insert(vlib.WSFrame{Fin: true, Op: vlib.OpClose, Payload: []byte{3}})
		case "close-bad-reason":
			insert(vlib.WSFrame{Fin: true, Op: vlib.OpClose, Payload: closePayload(1000, rapid.SampledFrom(badUTF8).Draw(t, "badreason"))})
		case "close-code":
			insert(vlib.WSFrame{Fin: true, Op: vlib.OpClose, Payload: closePayload(genCloseCode(t), []byte("r"))})
		case "topbit":
			insert(vlib.WSFrame{Fin: true, Op: rapid.SampledFrom([]int{vlib.OpText, vlib.OpBin}).Draw(t, "top_op"), TopBit: true, Payload: []byte("lies")})
		}
	}
	c.Frames = frames
	total := 0
	for _, f := range frames {
		total += len(f.Encode())
	}
	switch rapid.IntRange(0, 3).Draw(t, "segmode") {
	case 0:
	case 1:
		c.ByteAtATime = true
	default:
		if total > 1 {
			c.Cuts = vlib.GenCuts(t, total, nil)
		}
	}
	return c
}
