package c08

import (
	"testing"

	"verifharness/vlib"
)

// FuzzHTTP: coverage-guided bytes + segmentation for the HTTP parser (server and client side) with the
// full C08 oracle inside the target (no panic, nothing after an error, bounds).
func FuzzHTTP(f *testing.F) {
	seeds := []string{
		"GET / HTTP/1.1\r\nHost: a\r\n\r\n",
		"POST /echo HTTP/1.1\r\nHost: localhost:8080\r\nContent-Length: 5\r\nAccept-Encoding: gzip\r\n\r\nhello",
		"POST / HTTP/1.1\r\nHost: a\r\nTransfer-Encoding: chunked\r\nTrailer: Md5,Size\r\n\r\n4\r\nbody\r\n0\r\nMd5: 841a2d689ad86bd1611447453c22c6fc\r\nSize: 4\r\n\r\n",
		"HTTP/1.1 200 OK\r\nContent-Length: 3\r\n\r\nabcHTTP/1.1 404 Not Found\r\nTransfer-Encoding: chunked\r\n\r\n3;x=y\r\nabc\r\n0\r\n\r\n",
		"POST / HTTP/1.1\r\nContent-Length: 9223372036854775807\r\n\r\nx",
		"POST / HTTP/1.1\r\nTransfer-Encoding: chunked\r\n\r\n7fffffffffffffff\r\nx",
		"POST / HTTP/1.1\r\nTransfer-Encoding: chunked\r\n\r\n3fffffffffffffff\r\nx",
		"GET / HTTP/1.1\r\nContent-Length: 4611686018427387903\r\n\r\nab",
		"GET /%zz HTTP/1.1\r\n\r\n", "CONNECT a:1 HTTP/1.1\r\n\r\n", "PRI * HTTP/2.0\r\n\r\nSM\r\n\r\n",
		"GET / HTTP/1.1\r\n a: b\r\n\r\n", "GET / HTTP/1.1\r\nA : b\r\n\r\n", "\r\n\r\n", "G",
	}
	for i, s := range seeds {
		f.Add([]byte(s), uint32(i), false, uint16(0), uint16(0))
		f.Add([]byte(s), uint32(i*7+1), true, uint16(64), uint16(3))
	}
	f.Fuzz(func(t *testing.T, data []byte, seed uint32, client bool, readLimit uint16, maxBody uint16) {
		if len(data) == 0 || len(data) > 1<<16 {
			return
		}
		c := Case{Kind: "random", Client: client, Stream: data, Cuts: vlib.CutsFromSeed(len(data), seed), ReadLimit: int(readLimit), MaxBody: int(maxBody), Preview: vlib.Preview(data, 200)}
		if res := runCase(c); res.Err != nil {
			p := vlib.FuzzFail("C08", "robustness", c, res.Err.Error())
			t.Fatalf("%v (replay %s)", res.Err, p)
		}
	})
}
