package c08

import (
	"fmt"
	"io"
	"net/http"
	"reflect"
	"strconv"
	"strings"
	"testing"
	"time"

	"verifharness/vlib"

	"github.com/lesismal/nbio/mempool"
	"github.com/lesismal/nbio/nbhttp"
	"pgregory.net/rapid"
)

type Case struct {
	Kind       string   `json:"kind"` // random, mutated, malformed, oversize
	Class      string   `json:"class,omitempty"`
	Client     bool     `json:"client"`
	Stream     []byte   `json:"stream"`
	Cuts       []int    `json:"cuts,omitempty"`
	ReadLimit  int      `json:"read_limit,omitempty"`
	MaxBody    int      `json:"max_body,omitempty"`
	MustReject bool     `json:"must_reject,omitempty"`
	ValidAhead int      `json:"valid_ahead,omitempty"` // complete valid messages before the malformed one
	Preview    string   `json:"preview"`
	Classes    []string `json:"classes,omitempty"`
}

var inline = func(f func()) { f() }

// the tracking allocator records the largest buffer the parser asks for ("retained" is not only the
// length of the carry-over buffer but also the capacity allocated for it)
var tracker = vlib.NewTracker()

func init() { mempool.DefaultMemPool = tracker }

func cachedLen(p *nbhttp.Parser) (int, bool) {
	v := reflect.ValueOf(p).Elem().FieldByName("bytesCached")
	if !v.IsValid() || v.Kind() != reflect.Ptr {
		return 0, false
	}
	if v.IsNil() {
		return 0, true
	}
	e := v.Elem()
	if e.Kind() != reflect.Slice {
		return 0, false
	}
	return e.Len(), true
}

type outcome struct {
	delivered   int
	maxBodySeen int
	err         error
	errAt       int // segment index of the first error
	violation   error
	reachedHdr  bool
}

func execute(c Case) (o outcome) {
	conn := &vlib.FakeConn{}
	conf := nbhttp.Config{ServerExecutor: inline, ClientExecutor: inline, SupportServerOnly: true, ReadLimit: c.ReadLimit, MaxHTTPBodySize: c.MaxBody}
	var engine *nbhttp.Engine
	var proc nbhttp.Processor
	afterErr := false
	if !c.Client {
		conf.Handler = http.HandlerFunc(func(w http.ResponseWriter, r *http.Request) {
			if afterErr && o.violation == nil {
				o.violation = fmt.Errorf("a request was delivered to the handler after Parse had returned an error")
			}
			body, _ := io.ReadAll(r.Body)
			if len(body) > o.maxBodySeen {
				o.maxBodySeen = len(body)
			}
			o.delivered++
		})
		engine = nbhttp.NewEngine(conf)
		proc = nbhttp.NewServerProcessor()
	} else {
		engine = nbhttp.NewEngine(conf)
		proc = nbhttp.NewClientProcessor(&nbhttp.ClientConn{Engine: engine}, func(res *http.Response, e error) {
			if e != nil || res == nil {
				return
			}
			if afterErr && o.violation == nil {
				o.violation = fmt.Errorf("a response was delivered to the callback after Parse had returned an error")
			}
			if res.Body != nil {
				body, _ := io.ReadAll(res.Body)
				if len(body) > o.maxBodySeen {
					o.maxBodySeen = len(body)
				}
			}
			o.delivered++
		})
	}
	p := nbhttp.NewParser(conn, engine, proc, c.Client, nil)
	defer func() {
		if r := recover(); r != nil {
			o.violation = fmt.Errorf("panic propagated out of the parser: %v", r)
		}
	}()
	segs := vlib.Split(c.Stream, c.Cuts)
	o.errAt = -1
	limit := engine.ReadLimit
	for i, s := range segs {
		cp := append([]byte(nil), s...)
		before, _ := cachedLen(p)
		err := p.Parse(cp)
		if afterErr {
			if err == nil && o.violation == nil {
				o.violation = fmt.Errorf("Parse returned nil for segment %d although an earlier Parse had failed (%v) and the parser was closed", i, o.err)
			}
			continue
		}
		if n, ok := cachedLen(p); ok && err == nil {
			// one read may be larger than the limit; adding to what is already retained must not go beyond it
			if limit > 0 && (n > limit+len(s) || (before > 0 && n > limit)) && o.violation == nil {
				o.violation = fmt.Errorf("after segment %d (len %d) the parser retains %d bytes (%d before this read); ReadLimit is %d", i, len(s), n, before, limit)
			}
		}
		if err != nil {
			o.err = err
			o.errAt = i
			afterErr = true
			p.CloseAndClean(err)
		}
	}
	if !afterErr {
		p.CloseAndClean(nil)
	}
	return o
}

func runCase(c Case) vlib.Result {
	res := vlib.Result{Classes: append([]string{"kind=" + c.Kind}, c.Classes...)}
	if c.Class != "" {
		res.Classes = append(res.Classes, "malformed="+c.Class)
	}
	tracker.Reset()
	done := make(chan outcome, 1)
	go func() { done <- execute(c) }()
	var o outcome
	select {
	case o = <-done:
	case <-time.After(20 * time.Second):
		res.Err = fmt.Errorf("Parse did not return within 20 s (hang) on a %d-byte input", len(c.Stream))
		return res
	}
	if pl := vlib.Panics(vlib.Logs.Take()); len(pl) > 0 {
		res.Err = fmt.Errorf("recovered panic logged by the library: %s", pl[0])
		return res
	}
	if o.violation != nil {
		res.Err = o.violation
		return res
	}
	if c.ReadLimit > 0 {
		maxSeg := 0
		for _, sg := range vlib.Split(c.Stream, c.Cuts) {
			if len(sg) > maxSeg {
				maxSeg = len(sg)
			}
		}
		if bound := c.ReadLimit + maxSeg + 2048; tracker.PeakReq > bound {
			res.Err = fmt.Errorf("the parser asked the allocator for a buffer of %d bytes; ReadLimit is %d and the largest read %d bytes (bound %d): memory retained for an incomplete message is not bounded by the read limit", tracker.PeakReq, c.ReadLimit, maxSeg, bound)
			return res
		}
	}
	if c.MaxBody > 0 && o.maxBodySeen > c.MaxBody {
		res.Err = fmt.Errorf("a body of %d bytes was delivered although MaxHTTPBodySize is %d", o.maxBodySeen, c.MaxBody)
		return res
	}
	if c.MustReject {
		if o.err == nil {
			res.Err = fmt.Errorf("malformed framing (%s) was not rejected: no Parse error by the end of the valid follow-up request; %d messages delivered (valid ones ahead: %d)", c.Class, o.delivered, c.ValidAhead)
			return res
		}
		if o.delivered > c.ValidAhead {
			res.Err = fmt.Errorf("malformed message (%s) was delivered as complete (%d delivered, only %d valid messages precede it) before the error %v", c.Class, o.delivered, c.ValidAhead, o.err)
			return res
		}
	}
	if o.err != nil {
		res.Classes = append(res.Classes, "rejected")
	} else {
		res.Classes = append(res.Classes, "accepted")
	}
	res.NonTrivial = c.MustReject || c.Kind == "oversize" || o.delivered > 0 || (o.err != nil && o.errAt >= 0 && len(c.Stream) > 16)
	return res
}

// ---------- generators ----------

var dict = []string{"GET ", "POST ", " HTTP/1.1\r\n", " HTTP/1.0\r\n", "HTTP/1.1 200 OK\r\n", "\r\n", "\r", "\n", "Content-Length: ", "Transfer-Encoding: chunked\r\n",
	"Trailer: X\r\n", "0\r\n\r\n", "5\r\nhello\r\n", "Host: a\r\n", "/", "*", ":", " ", "X: y\r\n", "7fffffffffffffff", "ffffffffffffffffff", "-1", "18446744073709551616", "Connection: close\r\n", ";ext=1"}

func genRandom(t *rapid.T) []byte {
	n := rapid.IntRange(1, 12).Draw(t, "pieces")
	var out []byte
	for i := 0; i < n; i++ {
		if rapid.IntRange(0, 2).Draw(t, "usedict") > 0 {
			out = append(out, dict[rapid.IntRange(0, len(dict)-1).Draw(t, "dict")]...)
		} else {
			out = append(out, rapid.SliceOfN(rapid.Byte(), 0, 40).Draw(t, "raw")...)
		}
	}
	if len(out) == 0 {
		out = []byte{0}
	}
	return out
}

type builder struct {
	b       []byte
	crlfs   []int    // offsets of structural CRLFs
	crlfTag []string // which line each belongs to
}

func (b *builder) w(s string) { b.b = append(b.b, s...) }
func (b *builder) crlf(tag string) {
	b.crlfs = append(b.crlfs, len(b.b))
	b.crlfTag = append(b.crlfTag, tag)
	b.b = append(b.b, '\r', '\n')
}
func (b *builder) line(s, tag string) { b.w(s); b.crlf(tag) }

type msgSpec struct {
	client   bool
	proto11  bool
	clValue  string   // "" = no CL header
	cl2      string   // second Content-Length header
	te       []string // Transfer-Encoding header values (one header line each)
	chunks   []string
	chunkHdr []string // explicit chunk-size tokens (overrides hex of len)
	trailers []string
	body     string
}

func (m msgSpec) render(b *builder) {
	if m.client {
		b.line("HTTP/1.1 200 OK", "status-line")
	} else {
		proto := "HTTP/1.1"
		if !m.proto11 {
			proto = "HTTP/1.0"
		}
		b.line("POST /p?q=1 "+proto, "request-line")
		b.line("Host: example.com", "header-line")
	}
	b.line("X-A: b c", "header-line")
	if m.clValue != "\x00" {
		b.line("Content-Length: "+m.clValue, "header-line")
	}
	if m.cl2 != "" {
		b.line("Content-Length: "+m.cl2, "header-line")
	}
	for _, te := range m.te {
		b.line("Transfer-Encoding: "+te, "header-line")
	}
	if len(m.trailers) > 0 {
		b.line("Trailer: "+strings.Join(m.trailers, ", "), "header-line")
	}
	b.crlf("header-terminator")
	if len(m.te) > 0 {
		for i, c := range m.chunks {
			h := strconv.FormatInt(int64(len(c)), 16)
			if i < len(m.chunkHdr) && m.chunkHdr[i] != "" {
				h = m.chunkHdr[i]
			}
			b.line(h, "chunk-size-line")
			b.w(c)
			b.crlf("chunk-terminator")
		}
		b.line("0", "last-chunk-line")
		for _, tr := range m.trailers {
			b.line(tr+": v1 v2", "trailer-line")
		}
		b.crlf("final-crlf")
	} else {
		b.w(m.body)
	}
}

func validSpec(t *rapid.T, client bool, label string) msgSpec {
	m := msgSpec{client: client, proto11: true, clValue: "\x00"}
	switch rapid.IntRange(0, 2).Draw(t, label+"_framing") {
	case 0:
		if client {
			m.clValue = "0"
		}
	case 1:
		m.body = strings.Repeat("b", rapid.IntRange(0, 40).Draw(t, label+"_bodylen"))
		m.clValue = strconv.Itoa(len(m.body))
	default:
		m.te = []string{"chunked"}
		n := rapid.IntRange(0, 3).Draw(t, label+"_nchunks")
		for i := 0; i < n; i++ {
			m.chunks = append(m.chunks, strings.Repeat("c", rapid.IntRange(1, 30).Draw(t, label+"_chunklen")))
		}
		if n > 0 && rapid.IntRange(0, 2).Draw(t, label+"_chunkext") == 0 {
			// chunk-size lines with something behind the size: padding blanks or a chunk extension (both legal)
			m.chunkHdr = make([]string, n)
			for i := 0; i < n; i++ {
				m.chunkHdr[i] = strconv.FormatInt(int64(len(m.chunks[i])), 16) + rapid.SampledFrom([]string{"", " ", "   ", ";ext=1", ";a=b;c=d"}).Draw(t, label+"_chunktail")
			}
		}
		if rapid.Bool().Draw(t, label+"_trailers") {
			m.trailers = []string{"X-T1"}
			if rapid.Bool().Draw(t, label+"_trailers2") {
				m.trailers = append(m.trailers, "X-T2")
			}
		}
	}
	return m
}

var badCL = []string{"abc", "12a", "1.5", "0x10", "", " ", "-1", "-5", "9223372036854775808", "123456789012345678901234567890", "1 2", "١٢"}
var badTE = []string{"gzip", "identity", "chunked, gzip", "gzip, chunked", "deflate"}
var badChunk = []string{"g", "xyz", "-1", " 5", ";ext", "11112222333344445", "7fffffffffffffff", "ffffffffffffffff", "100000000000000000000"}

func genMalformed(t *rapid.T) Case {
	c := Case{Kind: "malformed", MustReject: true, Client: rapid.IntRange(0, 3).Draw(t, "client") == 0}
	b := &builder{}
	c.ValidAhead = rapid.IntRange(0, 2).Draw(t, "ahead")
	for i := 0; i < c.ValidAhead; i++ {
		validSpec(t, c.Client, fmt.Sprintf("ahead%d", i)).render(b)
	}
	m := validSpec(t, c.Client, "bad")
	start := len(b.b)
	firstCRLF := len(b.crlfs)
	cls := rapid.SampledFrom([]string{"content-length", "content-length", "transfer-encoding", "transfer-encoding-repeated", "chunk-size", "chunk-size", "line-terminator", "line-terminator", "line-terminator"}).Draw(t, "class")
	switch cls {
	case "content-length":
		v := rapid.SampledFrom(badCL).Draw(t, "badcl")
		m.te, m.chunks, m.trailers = nil, nil, nil
		m.clValue = v
		m.body = "bbbbb"
		c.Class = fmt.Sprintf("content-length=%q", v)
		m.render(b)
	case "transfer-encoding":
		v := rapid.SampledFrom(badTE).Draw(t, "badte")
		m.te = []string{v}
		m.clValue = "\x00"
		m.body = ""
		if len(m.chunks) == 0 {
			m.chunks = []string{"cc"}
		}
		c.Class = fmt.Sprintf("transfer-encoding=%q", v)
		m.render(b)
	case "transfer-encoding-repeated":
		// the field occurs more than once: whatever the other occurrence says (the same, another coding, nothing
		// at all, blanks, a lone comma), in whichever order - the framing is ambiguous and must be refused
		other := rapid.SampledFrom([]string{"chunked", "chunked", "gzip", "identity", "", " ", "\t", ",", " , "}).Draw(t, "te_other")
		m.te = []string{"chunked", other}
		if rapid.Bool().Draw(t, "te_swap") {
			m.te = []string{other, "chunked"}
		}
		if len(m.chunks) == 0 {
			m.chunks = []string{"cc"}
		}
		m.clValue = "\x00"
		m.body = ""
		c.Class = fmt.Sprintf("transfer-encoding-repeated=%q", other)
		m.render(b)
	case "chunk-size":
		v := rapid.SampledFrom(badChunk).Draw(t, "badchunk")
		m.te = []string{"chunked"}
		m.clValue = "\x00"
		m.body = ""
		if len(m.chunks) == 0 {
			m.chunks = []string{"cc"}
		}
		idx := rapid.IntRange(0, len(m.chunks)-1).Draw(t, "badchunkidx")
		m.chunkHdr = make([]string, len(m.chunks))
		m.chunkHdr[idx] = v
		c.Class = fmt.Sprintf("chunk-size=%q", v)
		m.render(b)
	default:
		if rapid.Bool().Draw(t, "forcechunked") {
			m.te, m.clValue, m.body = []string{"chunked"}, "\x00", ""
			if len(m.chunks) == 0 {
				m.chunks = []string{"cc", "ddd"}
			}
			if len(m.trailers) == 0 && rapid.Bool().Draw(t, "forcetrailers") {
				m.trailers = []string{"X-T1"}
			}
		}
		m.render(b)
		// remove the CR or the LF of one structural CRLF of the malformed message: pick the line kind first
		tags := []string{}
		seenTag := map[string]bool{}
		for _, tg := range b.crlfTag[firstCRLF:] {
			if !seenTag[tg] {
				seenTag[tg] = true
				tags = append(tags, tg)
			}
		}
		tag := rapid.SampledFrom(tags).Draw(t, "whichline")
		var cands []int
		for i := firstCRLF; i < len(b.crlfs); i++ {
			if b.crlfTag[i] == tag {
				cands = append(cands, i)
			}
		}
		k := cands[rapid.IntRange(0, len(cands)-1).Draw(t, "whichcrlf")]
		off := b.crlfs[k]
		dropCR := rapid.Bool().Draw(t, "dropcr")
		which := "LF"
		if dropCR {
			which = "CR"
			b.b = append(b.b[:off], b.b[off+1:]...)
		} else {
			b.b = append(b.b[:off+1], b.b[off+2:]...)
		}
		c.Class = "missing-" + which + "@" + b.crlfTag[k]
	}
	_ = start
	// one valid follow-up message
	follow := msgSpec{client: c.Client, proto11: true, clValue: "\x00"}
	if c.Client {
		follow.clValue = "0"
	}
	follow.render(b)
	c.Stream = b.b
	c.Cuts = vlib.GenCuts(t, len(c.Stream), vlib.InterestingOffsets(c.Stream))
	c.Preview = vlib.Preview(c.Stream, 300)
	return c
}

func genOversize(t *rapid.T) Case {
	c := Case{Kind: "oversize", Client: rapid.IntRange(0, 3).Draw(t, "client") == 0}
	c.ReadLimit = rapid.SampledFrom([]int{64, 100, 256, 1000, 4096, 65536, 1 << 20}).Draw(t, "readlimit")
	c.MaxBody = rapid.SampledFrom([]int{0, 1, 2, 10, 100, 1000, 4096, 65536}).Draw(t, "maxbody")
	b := &builder{}
	n := rapid.IntRange(1, 3).Draw(t, "nmsg")
	for i := 0; i < n; i++ {
		m := msgSpec{client: c.Client, proto11: true, clValue: "\x00"}
		size := func(label string) int {
			base := rapid.SampledFrom([]int{1, 10, c.ReadLimit, c.ReadLimit / 2, c.MaxBody, c.MaxBody * 2, 3 * c.ReadLimit}).Draw(t, label)
			v := base + rapid.IntRange(-2, 2).Draw(t, label+"_d")
			if v < 0 {
				v = 0
			}
			if v > 300000 {
				v = 300000
			}
			return v
		}
		switch rapid.IntRange(0, 3).Draw(t, "shape") {
		case 0: // long header value
			if c.Client {
				b.line("HTTP/1.1 200 OK", "")
			} else {
				b.line("GET / HTTP/1.1", "")
			}
			b.line("X-Long: "+strings.Repeat("h", size("hlen")), "")
			b.line("Content-Length: 0", "")
			b.crlf("")
			c.Classes = append(c.Classes, "long-header")
		case 1: // big Content-Length body
			m.body = strings.Repeat("b", size("blen"))
			m.clValue = strconv.Itoa(len(m.body))
			m.render(b)
			c.Classes = append(c.Classes, "cl-body")
		case 2: // chunked, many chunks
			m.te = []string{"chunked"}
			k := rapid.IntRange(1, 6).Draw(t, "nchunks")
			for j := 0; j < k; j++ {
				m.chunks = append(m.chunks, strings.Repeat("c", size("clen")/k+1))
			}
			m.render(b)
			c.Classes = append(c.Classes, "chunked-body")
		default: // long request target / many headers
			if c.Client {
				b.line("HTTP/1.1 200 OK", "")
			} else {
				b.line("GET /"+strings.Repeat("u", size("ulen"))+" HTTP/1.1", "")
			}
			for j := 0; j < rapid.IntRange(0, 50).Draw(t, "nh"); j++ {
				b.line(fmt.Sprintf("X-%d: %s", j, strings.Repeat("v", 20)), "")
			}
			b.line("Content-Length: 0", "")
			b.crlf("")
			c.Classes = append(c.Classes, "long-target-or-many-headers")
		}
	}
	c.Stream = b.b
	// reads of a generated size
	rs := rapid.SampledFrom([]int{1, 7, 64, 1000, 4096, 65536}).Draw(t, "readsize")
	if len(c.Stream)/rs > 3000 {
		rs = len(c.Stream)/3000 + 1
	}
	for i := rs; i < len(c.Stream); i += rs {
		c.Cuts = append(c.Cuts, i)
	}
	c.Classes = append(c.Classes, fmt.Sprintf("readlimit=%d", c.ReadLimit))
	c.Preview = vlib.Preview(c.Stream, 120)
	return c
}

// genHuge: valid framing metadata that announces far more than will ever arrive (and far more than
// the limits allow): a huge Content-Length or chunk size followed by a few body bytes, the head and the
// body arriving in different reads.
func genHuge(t *rapid.T) Case {
	c := Case{Kind: "oversize", Client: rapid.IntRange(0, 3).Draw(t, "client") == 0}
	c.ReadLimit = rapid.SampledFrom([]int{64, 1000, 4096, 65536, 0}).Draw(t, "readlimit")
	c.MaxBody = rapid.SampledFrom([]int{0, 100, 65536}).Draw(t, "maxbody")
	huge := rapid.SampledFrom([]string{"70000", "16777216", "2147483648", "1099511627776", "281474976710656", "4611686018427387903"}).Draw(t, "huge")
	b := &builder{}
	if c.Client {
		b.line("HTTP/1.1 200 OK", "")
	} else {
		b.line("POST /upload HTTP/1.1", "")
		b.line("Host: example.com", "")
	}
	chunked := rapid.Bool().Draw(t, "chunked")
	if chunked {
		b.line("Transfer-Encoding: chunked", "")
		b.crlf("")
	} else {
		b.line("Content-Length: "+huge, "")
		b.crlf("")
	}
	headEnd := len(b.b)
	if chunked {
		n, _ := strconv.ParseInt(huge, 10, 64)
		b.line(strconv.FormatInt(n, 16), "")
	}
	sizeEnd := len(b.b)
	b.w(strings.Repeat("x", rapid.IntRange(1, 300).Draw(t, "bodybytes")))
	c.Stream = b.b
	c.Cuts = []int{headEnd}
	if sizeEnd > headEnd {
		c.Cuts = append(c.Cuts, sizeEnd)
	}
	for i := sizeEnd + rapid.IntRange(1, 50).Draw(t, "step"); i < len(c.Stream); i += rapid.IntRange(1, 100).Draw(t, "step2") {
		c.Cuts = append(c.Cuts, i)
	}
	c.Classes = append(c.Classes, "huge-declared-length="+huge, fmt.Sprintf("readlimit=%d", c.ReadLimit))
	c.Preview = vlib.Preview(c.Stream, 160)
	return c
}

func gen(t *rapid.T) Case {
	if rapid.IntRange(0, 11).Draw(t, "hugecase") == 0 {
		return genHuge(t)
	}
	switch rapid.IntRange(0, 9).Draw(t, "kind") {
	case 0, 1:
		c := Case{Kind: "random", Client: rapid.IntRange(0, 3).Draw(t, "client") == 0}
		c.Stream = genRandom(t)
		c.Cuts = vlib.GenCuts(t, len(c.Stream), vlib.InterestingOffsets(c.Stream))
		c.Preview = vlib.Preview(c.Stream, 200)
		return c
	case 2, 3, 4:
		c := Case{Kind: "mutated", Client: rapid.IntRange(0, 3).Draw(t, "client") == 0}
		s, _ := vlib.GenStream(t, vlib.HTTPOpts{Client: c.Client, MaxMsg: 3})
		c.Stream, c.Classes = vlib.Mutate(t, s)
		if len(c.Stream) == 0 {
			c.Stream = []byte{'\r'}
		}
		c.Cuts = vlib.GenCuts(t, len(c.Stream), vlib.InterestingOffsets(c.Stream))
		if rapid.IntRange(0, 3).Draw(t, "limits") == 0 {
			c.ReadLimit = rapid.SampledFrom([]int{64, 256, 4096}).Draw(t, "readlimit")
			c.MaxBody = rapid.SampledFrom([]int{0, 1, 16, 256}).Draw(t, "maxbody")
		}
		c.Preview = vlib.Preview(c.Stream, 200)
		return c
	case 5, 6, 7:
		return genMalformed(t)
	default:
		return genOversize(t)
	}
}

func TestCheck(t *testing.T) {
	r := vlib.NewRunner(t, "C08")
	vlib.RunCheck(r, vlib.Check[Case]{Name: "robustness", N: r.Pick(250000, 5000000), Gen: gen, Run: runCase, Confirm: false})
	r.Finish()
}
