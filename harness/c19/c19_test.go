package c19

import (
	"fmt"
	"runtime"
	"sync"
	"sync/atomic"
	"testing"
	"time"

	"verifharness/vlib"

	"github.com/lesismal/nbio/taskpool"
	"github.com/lesismal/nbio/timer"
	"pgregory.net/rapid"
)

// ---------- task pool histories ----------

type Step struct {
	K    string `json:"k"` // burst, release, idle, probe
	N    int    `json:"n,omitempty"`
	Kind string `json:"kind,omitempty"` // quick, gate, panic
	Gate int    `json:"gate,omitempty"`
}

type Case struct {
	M     int    `json:"max_concurrent"`
	Q     int    `json:"queue"`
	IO    bool   `json:"io_pool,omitempty"`
	Buf   int    `json:"io_buf,omitempty"`
	Steps []Step `json:"steps"`
	Stop  bool   `json:"stop_at_end"`
	// YieldPerMille (instrumented build): schedule perturbation at the pool's lock / unlock statements
	YieldPerMille int `json:"yield_per_mille,omitempty"`
}

type task struct {
	runs     int32
	returned int32 // Go returned
}

type pool interface {
	Go(f func())
	Stop()
}

type ioAdapter struct {
	p   *taskpool.IOTaskPool
	buf int
	bad *int32
}

func (a ioAdapter) Go(f func()) {
	a.p.Go(func(b *[]byte) {
		if b == nil || len(*b) != a.buf {
			atomic.StoreInt32(a.bad, 1)
		}
		f()
	})
}
func (a ioAdapter) Stop() { a.p.Stop() }

func newPool(c Case, badBuf *int32) pool {
	if c.IO {
		return ioAdapter{p: taskpool.NewIO(c.M, c.Q, c.Buf), buf: c.Buf, bad: badBuf}
	}
	return taskpool.New(c.M, c.Q)
}

var (
	widthMu    sync.Mutex
	widthCache = map[[2]int]int{}
)

// barrier submits w mutually waiting tasks (each from its own goroutine, Go may block) and reports
// whether all of them were running at the same time within d. The tasks are released afterwards.
func barrier(p pool, w int, d time.Duration) bool {
	var arrived int32
	release := make(chan struct{})
	all := make(chan struct{})
	var once sync.Once
	var fin sync.WaitGroup
	for i := 0; i < w; i++ {
		fin.Add(1)
		go p.Go(func() {
			defer fin.Done()
			if int(atomic.AddInt32(&arrived, 1)) == w {
				once.Do(func() { close(all) })
			}
			<-release
		})
	}
	ok := false
	select {
	case <-all:
		ok = true
	case <-time.After(d):
	}
	close(release)
	fin.Wait()
	return ok
}

func freshWidth(c Case) int {
	key := [2]int{c.M, c.Q}
	widthMu.Lock()
	w, ok := widthCache[key]
	widthMu.Unlock()
	if ok {
		return w
	}
	// every candidate width is tried on its own fresh pool (a failed attempt is an overload and must
	// not influence the yardstick); widths are tried upwards, so only the last attempt times out
	w = 0
	for cand := 1; cand <= c.M+1; cand++ {
		var bad int32
		p := newPool(Case{M: c.M, Q: c.Q}, &bad)
		ok := barrier(p, cand, 150*time.Millisecond)
		p.Stop()
		if !ok {
			break
		}
		w = cand
	}
	widthMu.Lock()
	widthCache[key] = w
	widthMu.Unlock()
	return w
}

func runPool(c Case) vlib.Result {
	defer vlib.Yield(c.YieldPerMille, 0x9001)()
	vlib.Logs.Take()
	res := vlib.Result{Classes: []string{fmt.Sprintf("m=%d", c.M)}}
	w0 := freshWidth(c)
	var badBuf int32
	p := newPool(c, &badBuf)
	stopped := false
	defer func() {
		if !stopped {
			p.Stop()
		}
	}()
	gates := map[int]chan struct{}{0: make(chan struct{}), 1: make(chan struct{})}
	released := map[int]bool{}
	var running, maxRunning int32
	var tasks []*task
	var tmu sync.Mutex
	var submit sync.WaitGroup
	overload, idleAfter := false, false
	submitOne := func(kind string, gate int) {
		t := &task{}
		tmu.Lock()
		tasks = append(tasks, t)
		tmu.Unlock()
		submit.Add(1)
		go func() {
			defer submit.Done()
			p.Go(func() {
				r := atomic.AddInt32(&running, 1)
				for {
					m := atomic.LoadInt32(&maxRunning)
					if r <= m || atomic.CompareAndSwapInt32(&maxRunning, m, r) {
						break
					}
				}
				atomic.AddInt32(&t.runs, 1)
				defer atomic.AddInt32(&running, -1)
				switch kind {
				case "gate":
					<-gates[gate]
				case "panic":
					panic("task panics on purpose")
				}
			})
			atomic.StoreInt32(&t.returned, 1)
		}()
	}
	releaseAll := func() {
		for i, g := range gates {
			if !released[i] {
				released[i] = true
				close(g)
			}
		}
	}
	waitIdle := func(d time.Duration) bool {
		return vlib.WaitUntil(d, func() bool {
			tmu.Lock()
			defer tmu.Unlock()
			for _, t := range tasks {
				if atomic.LoadInt32(&t.runs) == 0 {
					return false
				}
			}
			return atomic.LoadInt32(&running) == 0
		})
	}
	for si, st := range c.Steps {
		switch st.K {
		case "burst":
			if st.N > c.M {
				overload = true
			}
			for i := 0; i < st.N; i++ {
				kind := st.Kind
				if kind == "gate" && released[st.Gate] {
					kind = "quick"
				}
				submitOne(kind, st.Gate)
			}
			// let the burst really reach the pool before the next step (otherwise a following release
			// or probe would empty the pool before the overload has happened)
			time.Sleep(3 * time.Millisecond)
		case "release":
			if !released[st.Gate] {
				released[st.Gate] = true
				close(gates[st.Gate])
			}
		case "idle":
			releaseAll()
			if !waitIdle(5 * time.Second) {
				res.Err = fmt.Errorf("step %d: pool did not become idle within 5 s after all gates were released (tasks stuck)", si)
				return res
			}
			if overload {
				idleAfter = true
			}
		case "probe":
			releaseAll()
			if !waitIdle(5 * time.Second) {
				res.Err = fmt.Errorf("step %d: pool did not become idle within 5 s", si)
				return res
			}
			time.Sleep(2 * time.Millisecond)
			if w0 > 0 && !barrier(p, w0, 2*time.Second) {
				// confirm once
				time.Sleep(20 * time.Millisecond)
				if !barrier(p, w0, 2*time.Second) {
					res.Err = fmt.Errorf("step %d: a fresh pool New(%d,%d) runs %d mutually waiting tasks together, but after the preceding overload this idle pool cannot any more (parallelism permanently lost)", si, c.M, c.Q, w0)
					return res
				}
			}
			if overload {
				idleAfter = true
				res.Classes = append(res.Classes, "probe-after-overload")
			}
		}
	}
	releaseAll()
	// all Go calls must return
	done := make(chan struct{})
	go func() { submit.Wait(); close(done) }()
	select {
	case <-done:
	case <-time.After(5 * time.Second):
		res.Err = fmt.Errorf("a Go call did not return within 5 s although all gates are open")
		return res
	}
	if c.Stop {
		p.Stop()
		stopped = true
	}
	// every task whose Go returned before Stop runs exactly once
	ok := waitIdle(5 * time.Second)
	time.Sleep(time.Millisecond)
	tmu.Lock()
	defer tmu.Unlock()
	for i, t := range tasks {
		r := atomic.LoadInt32(&t.runs)
		if r > 1 {
			res.Err = fmt.Errorf("task %d ran %d times", i, r)
			return res
		}
		if r == 0 {
			res.Err = fmt.Errorf("task %d of %d was handed to the pool (Go returned) before Stop but never ran within 5 s (stop=%v, idle=%v)", i, len(tasks), c.Stop, ok)
			return res
		}
	}
	if int(atomic.LoadInt32(&maxRunning)) > c.M {
		res.Err = fmt.Errorf("%d tasks ran at the same time, the bound is %d", maxRunning, c.M)
		return res
	}
	if atomic.LoadInt32(&badBuf) != 0 {
		res.Err = fmt.Errorf("an IO task received a nil buffer or a buffer whose length is not the configured %d", c.Buf)
		return res
	}
	res.NonTrivial = overload && idleAfter
	return res
}

func genPool(t *rapid.T) Case {
	c := Case{M: rapid.IntRange(2, 16).Draw(t, "m"), Q: rapid.SampledFrom([]int{0, 1, 4, 16, 64}).Draw(t, "q")}
	if rapid.IntRange(0, 4).Draw(t, "io") == 0 {
		c.IO = true
		c.Buf = rapid.SampledFrom([]int{1, 64, 4096, 65536}).Draw(t, "buf")
	}
	n := rapid.IntRange(1, 8).Draw(t, "nsteps")
	for i := 0; i < n; i++ {
		switch rapid.IntRange(0, 7).Draw(t, "step") {
		case 0:
			c.Steps = append(c.Steps, Step{K: "release", Gate: rapid.IntRange(0, 1).Draw(t, "gate")})
		case 1:
			c.Steps = append(c.Steps, Step{K: "idle"})
		case 2, 3:
			c.Steps = append(c.Steps, Step{K: "probe"})
		default:
			k := rapid.SampledFrom([]int{1, 2, c.M - 1, c.M, c.M + 1, 2 * c.M, 4*c.M + c.Q}).Draw(t, "burst")
			if k < 1 {
				k = 1
			}
			c.Steps = append(c.Steps, Step{K: "burst", N: k, Kind: rapid.SampledFrom([]string{"quick", "quick", "gate", "gate", "panic"}).Draw(t, "kind"), Gate: rapid.IntRange(0, 1).Draw(t, "gate")})
		}
	}
	c.Stop = rapid.Bool().Draw(t, "stop")
	if vlib.YieldAvailable {
		c.YieldPerMille = rapid.SampledFrom([]int{0, 0, 100, 300}).Draw(t, "yield")
	}
	return c
}

// ---------- Timer.Async ----------

type AsyncCase struct {
	Producers  int `json:"producers"`
	Each       int `json:"each"`
	PanicEvery int `json:"panic_every"`
	SleepEvery int `json:"sleep_every"`
	// PaceUs: producers pause about this long between calls, so that the drainer keeps running dry and being
	// restarted while other producers arrive (0 = free running: a standing backlog)
	PaceUs        int `json:"pace_us,omitempty"`
	YieldPerMille int `json:"yield_per_mille,omitempty"`
}

func runAsync(c AsyncCase) vlib.Result {
	defer vlib.Yield(c.YieldPerMille, 0xa5c)()
	vlib.Logs.Take()
	res := vlib.Result{Classes: []string{"async", fmt.Sprintf("producers=%d", c.Producers)}}
	tm := timer.New("c19")
	tm.Start()
	defer tm.Stop()
	type rec struct {
		runs int32
		seq  int64
	}
	all := make([][]*rec, c.Producers)
	var seq int64
	var inflight, overlap int32
	var wg sync.WaitGroup
	for p := 0; p < c.Producers; p++ {
		all[p] = make([]*rec, c.Each)
		wg.Add(1)
		go func(p int) {
			defer wg.Done()
			for i := 0; i < c.Each; i++ {
				r := &rec{}
				all[p][i] = r
				doPanic := c.PanicEvery > 0 && (i+1)%c.PanicEvery == 0
				doSleep := c.SleepEvery > 0 && (i+1)%c.SleepEvery == 0
				tm.Async(func() {
					if atomic.AddInt32(&inflight, 1) != 1 {
						atomic.StoreInt32(&overlap, 1)
					}
					atomic.AddInt32(&r.runs, 1)
					atomic.StoreInt64(&r.seq, atomic.AddInt64(&seq, 1))
					if doSleep {
						time.Sleep(50 * time.Microsecond)
					}
					atomic.AddInt32(&inflight, -1)
					if doPanic {
						panic("async function panics on purpose")
					}
				})
				if c.PaceUs > 0 {
					d := time.Duration(c.PaceUs+(p*5+i*3)%c.PaceUs) * time.Microsecond
					for t0 := time.Now(); time.Since(t0) < d; {
						runtime.Gosched()
					}
				}
			}
		}(p)
	}
	wg.Wait()
	// a long backlog on a busy machine is not a lost function: give up only when nothing has run for 5 s
	vlib.WaitProgress(5*time.Second, func() bool {
		for p := range all {
			for _, r := range all[p] {
				if atomic.LoadInt32(&r.runs) == 0 {
					return false
				}
			}
		}
		return true
	}, func() int64 { return atomic.LoadInt64(&seq) })
	time.Sleep(time.Millisecond)
	if atomic.LoadInt32(&overlap) != 0 {
		res.Err = fmt.Errorf("two Async functions ran at the same time")
		return res
	}
	for p := range all {
		last := int64(0)
		for i, r := range all[p] {
			n := atomic.LoadInt32(&r.runs)
			if n != 1 {
				res.Err = fmt.Errorf("producer %d function %d ran %d times (want exactly once; nothing has run for 5 s)", p, i, n)
				return res
			}
			if s := atomic.LoadInt64(&r.seq); s < last {
				res.Err = fmt.Errorf("producer %d: function %d ran before an earlier one (not FIFO)", p, i)
				return res
			} else {
				last = s
			}
		}
	}
	res.NonTrivial = c.Producers >= 2
	return res
}

func genAsync(t *rapid.T) AsyncCase {
	c := genAsync0(t)
	c.PaceUs = rapid.SampledFrom([]int{0, 0, 1, 5, 30}).Draw(t, "pace")
	if vlib.YieldAvailable {
		c.YieldPerMille = rapid.SampledFrom([]int{0, 100, 300}).Draw(t, "yield")
	}
	if c.PaceUs > 0 && c.Each > 100 {
		c.Each = 100
	}
	return c
}

func genAsync0(t *rapid.T) AsyncCase {
	return AsyncCase{Producers: rapid.SampledFrom([]int{1, 2, 3, 8, 16}).Draw(t, "producers"), Each: rapid.SampledFrom([]int{1, 10, 100, 1000}).Draw(t, "each"),
		PanicEvery: rapid.SampledFrom([]int{0, 0, 3, 50}).Draw(t, "panicevery"), SleepEvery: rapid.SampledFrom([]int{0, 0, 7, 100}).Draw(t, "sleepevery")}
}

// BurstCase: single producer, so the submission order is total. Each phase queues exactly N functions
// behind a gated head (one drainer lifetime takes exactly N functions when it started on an empty queue),
// keeps the last of them running while Late more functions are submitted, and then lets everything finish.
type BurstPhase struct {
	N    int `json:"n"`
	Late int `json:"late"`
}

type BurstCase struct {
	Phases []BurstPhase `json:"phases"`
}

func runBursts(c BurstCase) vlib.Result {
	vlib.Logs.Take()
	res := vlib.Result{Classes: []string{"async-bursts"}}
	tm := timer.New("c19b")
	tm.Start()
	defer tm.Stop()
	var seq, submitted int64
	var inflight, overlap int32
	var bad atomic.Value
	var runs []*int32
	var mu sync.Mutex
	mk := func(block chan struct{}, started chan struct{}) func() {
		id := atomic.AddInt64(&submitted, 1)
		n := new(int32)
		mu.Lock()
		runs = append(runs, n)
		mu.Unlock()
		return func() {
			if atomic.AddInt32(&inflight, 1) != 1 {
				atomic.StoreInt32(&overlap, 1)
			}
			if atomic.AddInt32(n, 1) == 1 {
				if got := atomic.AddInt64(&seq, 1); got != id && bad.Load() == nil {
					bad.Store(fmt.Sprintf("the function submitted as number %d ran as number %d (not FIFO, or one ran twice / was lost before it)", id, got))
				}
			}
			if started != nil {
				close(started)
			}
			if block != nil {
				<-block
			}
			atomic.AddInt32(&inflight, -1)
		}
	}
	for pi, ph := range c.Phases {
		g1, g2, tStarted := make(chan struct{}), make(chan struct{}), make(chan struct{})
		if ph.N >= 2 {
			tm.Async(mk(g1, nil))
			for i := 0; i < ph.N-2; i++ {
				tm.Async(mk(nil, nil))
			}
		}
		tm.Async(mk(g2, tStarted))
		close(g1)
		select {
		case <-tStarted:
		case <-time.After(10 * time.Second):
			close(g2)
			res.Err = fmt.Errorf("phase %d: the last of %d queued functions did not start within 10 s", pi, ph.N)
			return res
		}
		for i := 0; i < ph.Late; i++ {
			tm.Async(mk(nil, nil))
		}
		close(g2)
		want := atomic.LoadInt64(&submitted)
		if !vlib.WaitProgress(10*time.Second, func() bool { return atomic.LoadInt64(&seq) >= want }, func() int64 { return atomic.LoadInt64(&seq) }) {
			res.Err = fmt.Errorf("phase %d: %d functions submitted, only %d ran and nothing more for 10 s", pi, want, atomic.LoadInt64(&seq))
			return res
		}
		// the drainer ends its lifetime here (queue empty); give it a moment so that the next phase starts a new one
		time.Sleep(200 * time.Microsecond)
	}
	time.Sleep(time.Millisecond)
	if atomic.LoadInt32(&overlap) != 0 {
		res.Err = fmt.Errorf("two Async functions ran at the same time")
		return res
	}
	if v := bad.Load(); v != nil {
		res.Err = fmt.Errorf("%s", v.(string))
		return res
	}
	mu.Lock()
	defer mu.Unlock()
	for i, n := range runs {
		if k := atomic.LoadInt32(n); k != 1 {
			res.Err = fmt.Errorf("function %d ran %d times (want exactly once)", i+1, k)
			return res
		}
	}
	res.NonTrivial = true
	return res
}

func genBursts(t *rapid.T) BurstCase {
	var c BurstCase
	n := rapid.IntRange(1, 4).Draw(t, "nphases")
	for i := 0; i < n; i++ {
		var ph BurstPhase
		if rapid.Bool().Draw(t, "boundary") {
			// sizes at and around powers of two (internal batch / compaction / growth thresholds)
			k := rapid.IntRange(0, 13).Draw(t, "pow")
			ph.N = (1 << k) + rapid.IntRange(-1, 1).Draw(t, "delta")
			if ph.N < 1 {
				ph.N = 1
			}
		} else {
			ph.N = rapid.IntRange(1, 5000).Draw(t, "n")
		}
		ph.Late = rapid.SampledFrom([]int{0, 1, 1, 2, 50}).Draw(t, "late")
		c.Phases = append(c.Phases, ph)
	}
	return c
}

// StopBacklog: Stop arrives while the pool is saturated - every worker runs a task that waits for one of the
// tasks still queued, the dispatcher itself is inside a task it had to run inline - and a backlog of tasks
// that were handed over (Go returned) before Stop sits in the queue. Each of them still has to run exactly
// once; nothing else can run them, because the busy workers wait for them.
type StopBacklog struct {
	M         int `json:"max_concurrent"`
	Backlog   int `json:"backlog"`
	WaitFor   int `json:"holders_wait_for"` // index of the backlog task the holders wait for (-1 = the last)
	ReleaseUs int `json:"release_after_stop_us"`
}

func runStopBacklog(c StopBacklog) vlib.Result {
	vlib.Logs.Take()
	res := vlib.Result{Classes: []string{"stop-backlog", fmt.Sprintf("m=%d", c.M)}}
	p := taskpool.New(c.M, 64)
	stopped := false
	defer func() {
		if !stopped {
			p.Stop()
		}
	}()
	waitIdx := c.WaitFor
	if waitIdx < 0 || waitIdx >= c.Backlog {
		waitIdx = c.Backlog - 1
	}
	target := make(chan struct{}) // closed when the awaited backlog task has run
	gateC := make(chan struct{})
	var started int32
	var holdersDone, cDone int32
	holders := c.M - 2
	for i := 0; i < holders; i++ {
		p.Go(func() {
			atomic.AddInt32(&started, 1)
			select {
			case <-target:
			case <-time.After(8 * time.Second):
			}
			atomic.AddInt32(&holdersDone, 1)
		})
	}
	if !vlib.WaitUntil(2*time.Second, func() bool { return atomic.LoadInt32(&started) == int32(holders) }) {
		res.Classes = append(res.Classes, "holders-did-not-all-start (skipped)")
		close(target)
		close(gateC)
		return res
	}
	// all workers are busy: this one is queued and then run by the dispatcher itself
	var cStarted int32
	p.Go(func() {
		atomic.StoreInt32(&cStarted, 1)
		<-gateC
		atomic.StoreInt32(&cDone, 1)
	})
	if !vlib.WaitUntil(2*time.Second, func() bool { return atomic.LoadInt32(&cStarted) == 1 }) {
		res.Classes = append(res.Classes, "dispatcher-task-did-not-start (skipped)")
		close(target)
		close(gateC)
		return res
	}
	runs := make([]int32, c.Backlog)
	for i := 0; i < c.Backlog; i++ {
		i := i
		p.Go(func() {
			if atomic.AddInt32(&runs[i], 1) == 1 && i == waitIdx {
				close(target)
			}
		})
	}
	// every Go call has returned: the tasks were handed to the pool before Stop
	stopped = true
	p.Stop()
	time.Sleep(time.Duration(c.ReleaseUs) * time.Microsecond)
	close(gateC)
	ok := vlib.WaitUntil(5*time.Second, func() bool {
		for i := range runs {
			if atomic.LoadInt32(&runs[i]) == 0 {
				return false
			}
		}
		return atomic.LoadInt32(&holdersDone) == int32(holders) && atomic.LoadInt32(&cDone) == 1
	})
	ran := 0
	for i := range runs {
		switch n := atomic.LoadInt32(&runs[i]); {
		case n > 1:
			res.Err = fmt.Errorf("backlog task %d ran %d times", i, n)
			return res
		case n == 1:
			ran++
		}
	}
	if !ok {
		select {
		case <-target:
		default:
			close(target) // let the holders go
		}
		res.Err = fmt.Errorf("%d of %d tasks handed to the pool before Stop ran within 5 s (pool New(%d,64) saturated at Stop: %d workers wait for backlog task %d, the dispatcher was inside a task of its own)", ran, c.Backlog, c.M, holders, waitIdx)
		return res
	}
	res.NonTrivial = true
	return res
}

func genStopBacklog(t *rapid.T) StopBacklog {
	return StopBacklog{M: rapid.SampledFrom([]int{3, 4, 6, 9}).Draw(t, "m"), Backlog: rapid.SampledFrom([]int{1, 4, 16, 40}).Draw(t, "backlog"),
		WaitFor: rapid.SampledFrom([]int{-1, -1, 0}).Draw(t, "waitfor"), ReleaseUs: rapid.SampledFrom([]int{0, 200, 2000}).Draw(t, "release")}
}

func TestCheck(t *testing.T) {
	r := vlib.NewRunner(t, "C19")
	vlib.RunCheck(r, vlib.Check[Case]{Name: "taskpool", N: r.Pick(1500, 40000), Gen: genPool, Run: runPool, RecordCurrent: true})
	vlib.RunCheck(r, vlib.Check[AsyncCase]{Name: "async", N: r.Pick(1500, 40000), Gen: genAsync, Run: runAsync, RecordCurrent: true})
	vlib.RunCheck(r, vlib.Check[StopBacklog]{Name: "stop-backlog", N: r.Pick(400, 10000), Gen: genStopBacklog, Run: runStopBacklog, RecordCurrent: true})
	vlib.RunCheck(r, vlib.Check[BurstCase]{Name: "async-bursts", N: r.Pick(1500, 40000), Gen: genBursts, Run: runBursts, RecordCurrent: true})
	r.Finish()
}
