package c15

import (
	"testing"

	"verifharness/vlib"
)

// Coverage-guided search over the limit-case generator's choices (thorough tier).
func FuzzLimits(f *testing.F) {
	vlib.FuzzGenerated(f, "C15", "limits", gen(1<<20), runCase)
}
