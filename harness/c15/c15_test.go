package c15

import (
	"bytes"
	"encoding/binary"
	"errors"
	"fmt"
	"reflect"
	"strings"
	"sync"
	"testing"
	"time"

	"verifharness/vlib"

	"github.com/lesismal/nbio/mempool"
	"github.com/lesismal/nbio/nbhttp"
	"github.com/lesismal/nbio/nbhttp/websocket"
	"pgregory.net/rapid"
)

type FrameSpec struct {
	Op       int    `json:"op"`
	Fin      bool   `json:"fin"`
	Len      int    `json:"len"`  // payload length (uncompressed content length for the first frame of a compressed message)
	Kind     string `json:"kind"` // content kind
	Seed     uint32 `json:"seed"`
	Deflated bool   `json:"deflated,omitempty"` // payload = Deflate(content of Len bytes), RSV1 set
	R1       bool   `json:"rsv1,omitempty"`     // RSV1 set on this frame although the payload is not deflated (e.g. on a continuation)
}

type Case struct {
	Mode           string      `json:"mode"` // receive, send-control, readlimit, declared
	DeclMul        int         `json:"declared_multiple,omitempty"`
	DeclR1         bool        `json:"declared_rsv1,omitempty"`
	L              int         `json:"limit"`
	ReceiverClient bool        `json:"receiver_client"`
	Alloc          string      `json:"alloc"` // tracker, pool, aligned
	Frames         []FrameSpec `json:"frames,omitempty"`
	CutSize        int         `json:"cut_size,omitempty"` // 0 = whole
	ReadLimit      int         `json:"read_limit,omitempty"`
	CtlLen         int         `json:"ctl_len,omitempty"`
	CtlOp          int         `json:"ctl_op,omitempty"`
	CtlAPI         string      `json:"ctl_api,omitempty"`     // "" = WriteMessage, "close" = WriteClose(code, reason), "frame" = WriteFrame
	CtlLenEnc      int         `json:"ctl_len_enc,omitempty"` // recv-control: 0 minimal, 1 force the 16-bit form, 2 force the 64-bit form
	// Handlers (declared mode): which receive handlers the application installed: "" = OnMessage,
	// "dataframe" = OnDataFrame only, "both"
	Handlers string `json:"handlers,omitempty"`
}

var inline = func(f func()) { f() }

var (
	bombMu    sync.Mutex
	bombCache = map[string][]byte{}
)

func deflated(kind string, n int, seed uint32) []byte {
	key := fmt.Sprintf("%s/%d/%d", kind, n, seed)
	bombMu.Lock()
	defer bombMu.Unlock()
	if b, ok := bombCache[key]; ok {
		return b
	}
	b := vlib.Deflate(vlib.GenPayload(kind, n, seed), 6)
	if len(bombCache) > 64 {
		bombCache = map[string][]byte{}
	}
	bombCache[key] = b
	return b
}

func cachedLen(c *websocket.Conn) (int, bool) {
	v := reflect.ValueOf(c).Elem().FieldByName("bytesCached")
	if !v.IsValid() || v.Kind() != reflect.Ptr {
		return 0, false
	}
	if v.IsNil() {
		return 0, true
	}
	return v.Elem().Len(), true
}

func allocator(name string, tr *vlib.Tracker) mempool.Allocator {
	switch name {
	case "pool":
		return mempool.New(1024, 1024*1024*1024)
	case "aligned":
		return mempool.NewAligned()
	}
	return tr
}

func runCase(c Case) vlib.Result {
	return vlib.WithWatchdog(60*time.Second, "the WebSocket receive path", func() vlib.Result { return runCaseInner(c) })
}

func runCaseInner(c Case) vlib.Result {
	res := vlib.Result{Classes: []string{"mode=" + c.Mode, "alloc=" + c.Alloc, fmt.Sprintf("L=%d", c.L)}}
	tr := vlib.NewTracker()
	conn := &vlib.FakeConn{}
	engine := nbhttp.NewEngine(nbhttp.Config{ServerExecutor: inline, ClientExecutor: inline, SupportServerOnly: true, BodyAllocator: allocator(c.Alloc, tr), ReadLimit: c.ReadLimit})
	u := websocket.NewUpgrader()
	u.Engine = engine
	u.KeepaliveTime = 0
	u.MessageLengthLimit = c.L
	u.EnableCompression(true)
	type dmsg struct {
		op  int
		len int
		sum uint32
	}
	var got []dmsg
	var gotPayloads [][]byte
	if c.Handlers != "dataframe" {
		u.OnMessage(func(_ *websocket.Conn, mt websocket.MessageType, data []byte) {
			got = append(got, dmsg{op: int(mt), len: len(data)})
			if len(data) <= 1<<21 {
				gotPayloads = append(gotPayloads, append([]byte(nil), data...))
			} else {
				gotPayloads = append(gotPayloads, nil)
			}
		})
	}
	if c.Handlers != "" {
		// frames handed over one by one: a frame above the limit is a message (part) above the limit
		u.OnDataFrame(func(_ *websocket.Conn, mt websocket.MessageType, fin bool, data []byte) {
			got = append(got, dmsg{op: int(mt), len: len(data)})
		})
		res.Classes = append(res.Classes, "handlers="+c.Handlers)
	}
	var ctlSeen []int // payload lengths handed to the ping / pong / close handlers
	if c.Mode == "recv-control" {
		u.SetPingHandler(func(_ *websocket.Conn, data string) { ctlSeen = append(ctlSeen, len(data)) })
		u.SetPongHandler(func(_ *websocket.Conn, data string) { ctlSeen = append(ctlSeen, len(data)) })
		u.SetCloseHandler(func(_ *websocket.Conn, code int, text string) { ctlSeen = append(ctlSeen, 2+len(text)) })
	}
	var wsc *websocket.Conn
	if c.ReceiverClient {
		wsc = websocket.NewClientConn(u, conn, "", true, false)
	} else {
		wsc = websocket.NewServerConn(u, conn, "", true, false)
	}
	wsc.Execute = func(f func()) bool {
		if conn.IsClosed() {
			return false
		}
		f()
		return true
	}
	defer wsc.CloseAndClean(nil)

	switch c.Mode {
	case "recv-control":
		// one control frame of CtlLen bytes, its length written in the drawn form, fed whole or in pieces
		payload := bytes.Repeat([]byte("c"), c.CtlLen)
		if c.CtlOp == vlib.OpClose && c.CtlLen >= 2 {
			binary.BigEndian.PutUint16(payload, 1000)
		}
		f := vlib.WSFrame{Fin: true, Op: c.CtlOp, Masked: !c.ReceiverClient, Key: 77, Payload: payload, LenEnc: c.CtlLenEnc}
		wire := f.Encode()
		sz := c.CutSize
		if sz <= 0 {
			sz = len(wire)
		}
		var perr error
		for i := 0; i < len(wire) && perr == nil && !conn.IsClosed(); i += sz {
			e := i + sz
			if e > len(wire) {
				e = len(wire)
			}
			perr = wsc.Parse(append([]byte(nil), wire[i:e]...))
		}
		for _, n := range ctlSeen {
			if n > 125 {
				res.Err = fmt.Errorf("a control frame (opcode %d) with %d bytes of payload (length form %d) reached its handler; control frames above 125 bytes must be refused on receive", c.CtlOp, n, c.CtlLenEnc)
				return res
			}
		}
		if c.CtlLen > 125 && perr == nil && !conn.IsClosed() {
			res.Err = fmt.Errorf("a control frame (opcode %d) with %d bytes of payload (length form %d) was not refused: no Parse error and the connection is open", c.CtlOp, c.CtlLen, c.CtlLenEnc)
			return res
		}
		if c.CtlLen <= 125 && c.CtlLenEnc == 0 && (perr != nil || len(ctlSeen) != 1) {
			res.Err = fmt.Errorf("a legal control frame (opcode %d, %d bytes) was not handed to its handler exactly once: Parse error %v, handler calls %v", c.CtlOp, c.CtlLen, perr, ctlSeen)
			return res
		}
		res.Classes = append(res.Classes, fmt.Sprintf("recv-control/lenform=%d", c.CtlLenEnc))
		res.NonTrivial = c.CtlLen > 125 || c.CtlLenEnc != 0
		return res
	case "send-control":
		payload := bytes.Repeat([]byte("c"), c.CtlLen)
		if c.CtlOp == vlib.OpClose && c.CtlLen >= 2 {
			binary.BigEndian.PutUint16(payload, 1000)
		}
		var err error
		api := "WriteMessage"
		switch {
		case c.CtlAPI == "close" && c.CtlOp == vlib.OpClose && c.CtlLen >= 2:
			// the payload of the frame is the 2-byte status code plus the reason
			api = fmt.Sprintf("WriteClose(1000, reason of %d bytes)", c.CtlLen-2)
			err = wsc.WriteClose(1000, string(payload[2:]))
		case c.CtlAPI == "frame":
			api = "WriteFrame"
			err = wsc.WriteFrame(websocket.MessageType(c.CtlOp), true, true, payload)
		default:
			err = wsc.WriteMessage(websocket.MessageType(c.CtlOp), payload)
		}
		res.Classes = append(res.Classes, "send-api="+api[:strings.IndexAny(api+"(", "(")])
		wire := conn.Bytes()
		if c.CtlLen > 125 {
			if err == nil || len(wire) != 0 {
				res.Err = fmt.Errorf("%s (control opcode %d, payload %d bytes) returned %v and wrote %d bytes; control payloads above 125 must be refused", api, c.CtlOp, c.CtlLen, err, len(wire))
				return res
			}
			if !errors.Is(err, websocket.ErrControlMessageTooBig) {
				res.Classes = append(res.Classes, "refused-with-other-error")
			}
		} else {
			frames, rest, derr := vlib.DecodeWSFrames(wire)
			if err != nil || derr != nil || len(rest) != 0 || len(frames) != 1 || !frames[0].Fin || frames[0].Op != c.CtlOp || len(frames[0].Payload) != c.CtlLen {
				res.Err = fmt.Errorf("%s (control opcode %d, %d bytes): err=%v, wire decodes to %d frames (decode err %v)", api, c.CtlOp, c.CtlLen, err, len(frames), derr)
				return res
			}
		}
		res.NonTrivial = c.CtlLen >= 124 && c.CtlLen <= 127
		return res
	case "declared":
		// one data frame whose header declares a payload far above the limit, fed in small reads: it
		// must be refused long before that much was buffered, compressed (RSV1) or not
		n := c.L*c.DeclMul + 1
		f := vlib.WSFrame{Fin: true, Op: vlib.OpBin, R1: c.DeclR1, Masked: !c.ReceiverClient, Key: 11, Payload: vlib.GenPayload("pattern", n, 1)}
		wire := f.Encode()
		sz := c.CutSize
		if sz <= 0 {
			sz = 64
		}
		bound := c.L + c.L/8 + 64 + 14 + sz
		fed := 0
		var perr error
		for i := 0; i < len(wire) && perr == nil; i += sz {
			e := i + sz
			if e > len(wire) {
				e = len(wire)
			}
			perr = wsc.Parse(append([]byte(nil), wire[i:e]...))
			fed = e
			if n, ok := cachedLen(wsc); ok && perr == nil && n > bound {
				res.Err = fmt.Errorf("a frame declaring %d bytes (limit %d, rsv1=%v) was not refused: %d bytes are buffered after %d bytes were fed", len(f.Payload), c.L, c.DeclR1, n, fed)
				return res
			}
			if perr == nil && fed > bound+sz {
				res.Err = fmt.Errorf("a frame declaring %d bytes (limit %d, rsv1=%v) is still being accepted after %d bytes were fed", len(f.Payload), c.L, c.DeclR1, fed)
				return res
			}
		}
		for _, g := range got {
			if g.len > c.L {
				res.Err = fmt.Errorf("message of %d bytes delivered although MessageLengthLimit is %d", g.len, c.L)
				return res
			}
		}
		if perr == nil {
			res.Err = fmt.Errorf("a frame declaring %d bytes (limit %d, rsv1=%v) was accepted completely", len(f.Payload), c.L, c.DeclR1)
			return res
		}
		res.NonTrivial = true
		res.Classes = append(res.Classes, fmt.Sprintf("declared-oversize/rsv1=%v", c.DeclR1))
		return res
	case "readlimit":
		// an incomplete frame (declared length far above what is sent) fed in many reads
		hdr := vlib.WSFrame{Fin: true, Op: vlib.OpBin, Masked: !c.ReceiverClient, Key: 5, Payload: make([]byte, 1)}.Encode()
		_ = hdr
		decl := c.ReadLimit*4 + 1000
		f := vlib.WSFrame{Fin: true, Op: vlib.OpBin, Masked: !c.ReceiverClient, Key: 5, Payload: make([]byte, decl)}
		wire := f.Encode()
		wire = wire[:len(wire)-1] // never complete
		sz := c.CutSize
		if sz <= 0 {
			sz = 1
		}
		failed := false
		fed := 0
		for i := 0; i < len(wire); i += sz {
			e := i + sz
			if e > len(wire) {
				e = len(wire)
			}
			before, _ := cachedLen(wsc)
			err := wsc.Parse(append([]byte(nil), wire[i:e]...))
			fed = e
			if err != nil {
				failed = true
				break
			}
			if n, ok := cachedLen(wsc); ok {
				// a single read may be larger than the limit (it is not "buffered" before it was looked at);
				// once something is buffered, adding to it must never take the buffer beyond the limit
				if c.ReadLimit > 0 && (n > c.ReadLimit+(e-i) || (before > 0 && n > c.ReadLimit)) {
					res.Err = fmt.Errorf("after feeding %d bytes in reads of %d the connection caches %d unparsed bytes (%d before this read); ReadLimit is %d", fed, sz, n, before, c.ReadLimit)
					return res
				}
			} else {
				res.Classes = append(res.Classes, "cache-not-observable")
			}
		}
		if !failed && c.ReadLimit > 0 && fed > c.ReadLimit+sz {
			res.Err = fmt.Errorf("%d bytes of an incomplete frame were accepted although ReadLimit is %d", fed, c.ReadLimit)
			return res
		}
		res.NonTrivial = true
		return res
	}

	// receive mode: materialise frames
	m := &vlib.WSModel{Compression: true, Limit: c.L}
	var wire []byte
	open := false
	openExact := false
	compWire := 0
	inCompressed := false
	maxInflated := 0
	for i, fs := range c.Frames {
		var payload []byte
		f := vlib.WSFrame{Fin: fs.Fin, Op: fs.Op, Masked: !c.ReceiverClient, Key: uint32(i*7919 + 13)}
		if fs.Deflated {
			payload = deflated(fs.Kind, fs.Len, fs.Seed)
			f.R1 = true
			if c.L > 0 && fs.Len == c.L {
				// the compressed, exactly-L corner: the statement only speaks about "larger than";
				// the receiver may be unable to tell "exactly L" from "more than L" without reading on
				openExact = true
			}
			if fs.Len > maxInflated {
				maxInflated = fs.Len
			}
		} else {
			payload = vlib.GenPayload(fs.Kind, fs.Len, fs.Seed)
			f.R1 = fs.R1
		}
		f.Payload = payload
		if fs.Op == vlib.OpText || fs.Op == vlib.OpBin {
			inCompressed = fs.Deflated
			compWire = 0
		}
		if inCompressed && fs.Op < 8 {
			compWire += len(payload)
			if c.L > 0 && compWire > c.L {
				open = true
			}
		}
		wire = append(wire, f.Encode()...)
		if !m.Step(f) {
			break
		}
	}
	if m.Failed && !m.TooBig {
		return vlib.Fail("harness: generated frames are invalid for another reason: %s", m.FailReason)
	}
	sz := c.CutSize
	if sz <= 0 || len(wire)/sz > 4000 {
		sz = len(wire)
		if sz == 0 {
			sz = 1
		}
	}
	var perr error
	maxSeg := 0
	for i := 0; i < len(wire) && perr == nil && !conn.IsClosed(); i += sz {
		e := i + sz
		if e > len(wire) {
			e = len(wire)
		}
		if e-i > maxSeg {
			maxSeg = e - i
		}
		perr = wsc.Parse(append([]byte(nil), wire[i:e]...))
	}
	if pl := vlib.Panics(vlib.Logs.Take()); len(pl) > 0 {
		res.Err = fmt.Errorf("recovered panic logged by the library: %s", pl[0])
		return res
	}
	for i, g := range got {
		if c.L > 0 && g.len > c.L {
			res.Err = fmt.Errorf("message %d of %d bytes was delivered although MessageLengthLimit is %d", i, g.len, c.L)
			return res
		}
	}
	if open {
		res.Classes = append(res.Classes, "open:compressed-wire-size>L")
		return res
	}
	if m.Open {
		// RSV1 on a continuation frame: what the endpoint does with the connection is not asserted
		// here, only that nothing above the limit was delivered (checked above)
		res.Classes = append(res.Classes, "open:rsv1-on-continuation")
		res.NonTrivial = true
		return res
	}
	if openExact {
		res.Classes = append(res.Classes, "open:compressed-inflates-to-exactly-L")
		if perr != nil {
			res.Classes = append(res.Classes, "exactly-L-compressed-rejected(recorded)")
		}
		return res
	}
	if m.TooBig {
		res.Classes = append(res.Classes, "over-limit")
		if perr == nil {
			res.Err = fmt.Errorf("over-limit message (%s) did not make Parse fail (closed=%v, delivered %d)", m.FailReason, conn.IsClosed(), len(got))
			return res
		}
		back, _, _ := vlib.DecodeWSFrames(conn.Bytes())
		ok1009 := false
		for _, b := range back {
			if b.Op == vlib.OpClose && len(b.Payload) >= 2 && binary.BigEndian.Uint16(b.Payload[:2]) == 1009 {
				ok1009 = true
			}
		}
		if !ok1009 {
			res.Err = fmt.Errorf("over-limit message (%s): Parse failed with %v but no close frame with code 1009 was written", m.FailReason, perr)
			return res
		}
		if len(got) != len(m.Delivered) {
			res.Err = fmt.Errorf("over-limit case: %d messages delivered, the automaton delivered %d before the offence", len(got), len(m.Delivered))
			return res
		}
	} else {
		if perr != nil || conn.IsClosed() {
			res.Err = fmt.Errorf("all messages are within the limit %d but the connection failed: %v (delivered %d of %d)", c.L, perr, len(got), len(m.Delivered))
			return res
		}
		if len(got) != len(m.Delivered) {
			res.Err = fmt.Errorf("%d messages within the limit were sent, %d delivered", len(m.Delivered), len(got))
			return res
		}
		for i := range got {
			if got[i].len != len(m.Delivered[i].Payload) || (gotPayloads[i] != nil && !bytes.Equal(gotPayloads[i], m.Delivered[i].Payload)) {
				res.Err = fmt.Errorf("message %d: delivered %d bytes, sent %d bytes (or content differs)", i, got[i].len, len(m.Delivered[i].Payload))
				return res
			}
		}
	}
	if c.Alloc == "tracker" && c.L > 0 {
		bound := c.L
		if len(wire) > bound {
			bound = len(wire)
		}
		bound += 1024
		if tr.PeakReq > bound {
			res.Err = fmt.Errorf("the connection requested a buffer of %d bytes from the allocator; limit %d, bytes fed %d (bound %d)", tr.PeakReq, c.L, len(wire), bound)
			return res
		}
		if v := tr.Finish(); len(v) > 0 {
			res.Classes = append(res.Classes, "buffer-ownership-violation(C11 subject)")
		}
	}
	for _, fs := range c.Frames {
		d := fs.Len - c.L
		if d >= -2 && d <= 2 {
			res.NonTrivial = true
		}
		if fs.Deflated && fs.Len > c.L {
			res.NonTrivial = true
			res.Classes = append(res.Classes, "inflates-beyond-limit")
		}
	}
	if len(c.Frames) > 1 {
		res.NonTrivial = true
	}
	return res
}

func gen(maxBomb int) func(t *rapid.T) Case {
	return func(t *rapid.T) Case {
		c := Case{ReceiverClient: rapid.Bool().Draw(t, "receiver_client")}
		c.Alloc = rapid.SampledFrom([]string{"tracker", "tracker", "pool", "aligned"}).Draw(t, "alloc")
		c.L = rapid.SampledFrom([]int{1, 125, 1000, 3000, 65536, 1 << 20}).Draw(t, "limit")
		switch rapid.IntRange(0, 11).Draw(t, "mode") {
		case 3:
			c.Mode = "recv-control"
			c.CtlOp = rapid.SampledFrom([]int{vlib.OpPing, vlib.OpPong, vlib.OpClose}).Draw(t, "ctlop")
			c.CtlLen = rapid.SampledFrom([]int{0, 2, 125, 126, 127, 200, 65535, 65536, 70000}).Draw(t, "ctllen")
			c.CtlLenEnc = rapid.IntRange(0, 2).Draw(t, "ctllenenc")
			c.CutSize = rapid.SampledFrom([]int{0, 1, 7, 1000}).Draw(t, "cutsize")
			c.L = rapid.SampledFrom([]int{0, 1000}).Draw(t, "ctllimit")
			return c
		case 0:
			c.Mode = "send-control"
			c.CtlOp = rapid.SampledFrom([]int{vlib.OpPing, vlib.OpPong, vlib.OpClose}).Draw(t, "ctlop")
			c.CtlLen = rapid.SampledFrom([]int{0, 2, 123, 124, 125, 126, 127, 128, 200, 65536}).Draw(t, "ctllen")
			c.CtlAPI = rapid.SampledFrom([]string{"", "close", "frame"}).Draw(t, "ctlapi")
			c.L = 0
			return c
		case 2:
			c.Mode = "declared"
			if c.L > 65536 {
				c.L = 65536
			}
			c.DeclMul = rapid.SampledFrom([]int{1, 2, 10, 100}).Draw(t, "declmul")
			c.DeclR1 = rapid.Bool().Draw(t, "declr1")
			c.CutSize = rapid.SampledFrom([]int{1, 7, 64, 1000, 4096}).Draw(t, "cutsize")
			if c.L*c.DeclMul/c.CutSize > 20000 {
				c.CutSize = 4096
			}
			c.Handlers = rapid.SampledFrom([]string{"", "", "dataframe", "both"}).Draw(t, "handlers")
			return c
		case 1:
			c.Mode = "readlimit"
			c.ReadLimit = rapid.SampledFrom([]int{64, 100, 1000, 4096, 65536}).Draw(t, "readlimit")
			c.CutSize = rapid.SampledFrom([]int{1, 7, 64, 1000, 4096}).Draw(t, "cutsize")
			if c.ReadLimit*4/c.CutSize > 6000 {
				c.CutSize = c.ReadLimit*4/6000 + 1
			}
			c.L = 0
			return c
		}
		c.Mode = "receive"
		around := func(label string) int {
			v := c.L + rapid.IntRange(-2, 2).Draw(t, label)
			if v < 0 {
				v = 0
			}
			return v
		}
		kind := func() string {
			return rapid.SampledFrom([]string{"ascii", "zeros", "pattern", "random"}).Draw(t, "kind")
		}
		nmsg := rapid.IntRange(1, 3).Draw(t, "nmsg")
		for i := 0; i < nmsg; i++ {
			seed := uint32(rapid.IntRange(0, 1000).Draw(t, "seed"))
			op := rapid.SampledFrom([]int{vlib.OpBin, vlib.OpText}).Draw(t, "op")
			k := kind()
			if op == vlib.OpText && k == "random" {
				k = "ascii"
			}
			switch rapid.IntRange(0, 9).Draw(t, "shape") {
			case 0, 1, 2: // single frame around L
				c.Frames = append(c.Frames, FrameSpec{Op: op, Fin: true, Len: around("single"), Kind: k, Seed: seed})
			case 3, 4: // fragments summing around L
				total := around("fragtotal")
				rsv1Cont := rapid.IntRange(0, 3).Draw(t, "rsv1cont") == 0
				if rsv1Cont {
					total = c.L + rapid.SampledFrom([]int{1, 2, 200, c.L}).Draw(t, "rsv1over")
				}
				n := rapid.IntRange(2, 4).Draw(t, "nfrag")
				rest := total
				for j := 0; j < n; j++ {
					l := rest
					if j < n-1 {
						l = rapid.IntRange(0, rest).Draw(t, "fraglen")
					}
					rest -= l
					fop := vlib.OpCont
					if j == 0 {
						fop = op
					}
					fsp := FrameSpec{Op: fop, Fin: j == n-1, Len: l, Kind: k, Seed: seed + uint32(j)}
					if j > 0 && rsv1Cont {
						fsp.R1 = true // RSV1 on a continuation of an uncompressed message: whatever the endpoint does with it, nothing above the limit may be delivered
					}
					c.Frames = append(c.Frames, fsp)
					if rapid.IntRange(0, 4).Draw(t, "ctl") == 0 {
						c.Frames = append(c.Frames, FrameSpec{Op: vlib.OpPing, Fin: true, Len: rapid.SampledFrom([]int{0, 5, 125}).Draw(t, "pinglen"), Kind: "ascii"})
					}
				}
			case 5, 6, 7: // compressed, inflating around L / multiples
				var n int
				switch rapid.IntRange(0, 5).Draw(t, "infl") {
				case 0, 1, 2:
					n = around("inflated")
				case 3:
					n = 2 * c.L
				case 4:
					n = 10 * c.L
				default:
					n = 1000 * c.L
				}
				if n > maxBomb {
					n = maxBomb
				}
				ck := rapid.SampledFrom([]string{"zeros", "pattern", "ascii"}).Draw(t, "ckind")
				c.Frames = append(c.Frames, FrameSpec{Op: op, Fin: true, Len: n, Kind: ck, Seed: seed % 3, Deflated: true})
			default: // small message well within the limit
				l := rapid.IntRange(0, 50).Draw(t, "smalllen")
				if l > c.L {
					l = c.L
				}
				c.Frames = append(c.Frames, FrameSpec{Op: op, Fin: true, Len: l, Kind: k, Seed: seed})
			}
		}
		c.CutSize = rapid.SampledFrom([]int{0, 0, 1, 2, 7, 100, 1000, 4096}).Draw(t, "cutsize")
		return c
	}
}

func TestCheck(t *testing.T) {
	r := vlib.NewRunner(t, "C15")
	maxBomb := 32 << 20
	if !r.Quick() {
		maxBomb = 256 << 20
	}
	vlib.RunCheck(r, vlib.Check[Case]{Name: "limits", N: r.Pick(8000, 300000), Gen: gen(maxBomb), Run: runCase})
	vlib.RunCases(r, "path-cells", pathCells(), runPath, true)
	vlib.RunCheck(r, vlib.Check[PathCase]{Name: "paths", N: r.Pick(500, 10000), Gen: genPath, Run: runPath, Confirm: true, RecordCurrent: true})
	r.Finish()
}
