package c15

import (
	"crypto/tls"
	"encoding/binary"
	"fmt"
	"net"
	"net/http"
	"sync"
	"time"

	"verifharness/vlib"

	"github.com/lesismal/nbio/nbhttp"
	"github.com/lesismal/nbio/nbhttp/websocket"
	"pgregory.net/rapid"
)

// End-to-end tier: the message length limit on every upgrade path, plain and TLS. A real client sends
// messages around the limit (one frame or fragments, optionally compressed); whatever the path, a message
// larger than the limit is never delivered and the server fails the connection answering with close code
// 1009; messages within the limit are delivered unaltered.
type PathCase struct {
	Path     string `json:"path"` // nb, blocking-parser, blocking-transfer, std-readloop, std-transfer
	TLS      bool   `json:"tls"`
	Mode     string `json:"mode"`
	L        int    `json:"limit"`
	Sizes    []int  `json:"sizes"` // message sizes, in order; the first one above the limit ends the session
	Frag     int    `json:"frag"`  // fragment size (0 = one frame)
	Compress bool   `json:"compress"`
	Kind     string `json:"kind"` // payload kind for compressed messages
}

var pathNames = []string{"nb", "blocking-parser", "blocking-transfer", "std-readloop", "std-transfer", "std-handleread"}

func runPath(c PathCase) vlib.Result {
	res := vlib.Result{Classes: []string{fmt.Sprintf("pathcell=%s/tls=%v", c.Path, c.TLS)}}
	vlib.Logs.Take()
	var mu sync.Mutex
	var got [][]byte
	u := websocket.NewUpgrader()
	u.KeepaliveTime = 0
	u.MessageLengthLimit = c.L
	u.EnableCompression(c.Compress)
	u.OnMessage(func(wc *websocket.Conn, mt websocket.MessageType, data []byte) {
		mu.Lock()
		got = append(got, append([]byte(nil), data...))
		mu.Unlock()
	})
	transfer := c.Path == "blocking-transfer" || c.Path == "std-transfer"
	manualRead := c.Path == "std-handleread"
	handler := http.HandlerFunc(func(w http.ResponseWriter, r *http.Request) {
		if manualRead {
			// the application starts the read loop itself, with a buffer size of its choice
			if wc, err := u.UpgradeWithoutHandlingReadForConnFromSTDServer(w, r, nil); err == nil {
				go wc.HandleRead(61)
			}
		} else if transfer {
			_, _ = u.UpgradeAndTransferConnToPoller(w, r, nil)
		} else {
			_, _ = u.Upgrade(w, r, nil)
		}
	})
	conf := nbhttp.Config{Network: "tcp", NPoller: 2, Handler: handler}
	vlib.ApplyHTTPMode(&conf, c.Mode)
	std := c.Path == "std-readloop" || c.Path == "std-transfer" || c.Path == "std-handleread"
	if !std {
		if c.TLS {
			conf.AddrsTLS = []string{"127.0.0.1:0"}
			conf.TLSConfig = vlib.ServerTLSConfig()
		} else {
			conf.Addrs = []string{"127.0.0.1:0"}
		}
		conf.IOMod = nbhttp.IOModNonBlocking
		if c.Path != "nb" {
			conf.IOMod = nbhttp.IOModBlocking
		}
	}
	engine := nbhttp.NewEngine(conf)
	u.Engine = engine
	if err := engine.Start(); err != nil {
		return vlib.Fail("harness: http engine start: %v", err)
	}
	defer vlib.StopEngine(engine.Stop, 10*time.Second)
	addr := ""
	if std {
		ln, err := net.Listen("tcp", "127.0.0.1:0")
		if err != nil {
			return vlib.Fail("harness: listen: %v", err)
		}
		srv := &http.Server{Handler: handler}
		go srv.Serve(ln)
		defer srv.Close()
		addr = ln.Addr().String()
	} else if c.TLS {
		addr = engine.AddrsTLS[0]
	} else {
		addr = engine.Addrs[0]
	}
	var conn net.Conn
	var err error
	if c.TLS {
		conn, err = tls.DialWithDialer(&net.Dialer{Timeout: 3 * time.Second}, "tcp", addr, &tls.Config{InsecureSkipVerify: true})
	} else {
		conn, err = net.DialTimeout("tcp", addr, 3*time.Second)
	}
	if err != nil {
		return vlib.Fail("harness: dial: %v", err)
	}
	defer conn.Close()
	cl, err := vlib.WSHandshake(conn, "/ws", c.Compress)
	if err != nil {
		res.Err = fmt.Errorf("websocket handshake failed on path %s (tls=%v): %v", c.Path, c.TLS, err)
		return res
	}
	compress := c.Compress && cl.Compression
	type rd struct {
		closeCode int
		closed    bool
	}
	done := make(chan rd, 1)
	go func() {
		r := rd{closeCode: -1}
		for {
			_ = conn.SetReadDeadline(time.Now().Add(3 * time.Second))
			f, err := cl.ReadFrame()
			if err != nil {
				ne, ok := err.(net.Error)
				r.closed = !(ok && ne.Timeout())
				done <- r
				return
			}
			if f.Op == vlib.OpClose && r.closeCode < 0 {
				r.closeCode = 0
				if len(f.Payload) >= 2 {
					r.closeCode = int(binary.BigEndian.Uint16(f.Payload))
				}
			}
		}
	}()
	var want [][]byte
	over := -1
	openEnd := false
	for i, n := range c.Sizes {
		msg := vlib.GenPayload(c.Kind, n, uint32(i))
		wirePayload := msg
		if compress {
			wirePayload = vlib.Deflate(msg, 6)
			if c.L > 0 && n <= c.L && len(wirePayload) > c.L {
				// an incompressible message within the limit whose compressed form is larger than the limit:
				// the receiver may refuse it by its declared length (open class of the in-memory tier as well)
				res.Classes = append(res.Classes, "open: compressed form larger than the limit")
				openEnd = true
				break
			}
		}
		frag := c.Frag
		first := true
		var werr error
		for first || len(wirePayload) > 0 {
			k := len(wirePayload)
			if frag > 0 && k > frag {
				k = frag
			}
			f := vlib.WSFrame{Fin: k == len(wirePayload), Op: vlib.OpCont, Payload: wirePayload[:k]}
			if first {
				f.Op = vlib.OpBin
				f.R1 = compress
			}
			first = false
			wirePayload = wirePayload[k:]
			if werr = cl.WriteFrame(f); werr != nil {
				break
			}
		}
		if c.L > 0 && n > c.L {
			over = i
			break
		}
		if werr != nil {
			break
		}
		want = append(want, msg)
	}
	_ = openEnd
	if over < 0 {
		vlib.WaitUntil(3*time.Second, func() bool { mu.Lock(); defer mu.Unlock(); return len(got) >= len(want) })
		time.Sleep(2 * time.Millisecond)
		_ = conn.Close()
	}
	r := <-done
	time.Sleep(5 * time.Millisecond)
	mu.Lock()
	delivered := append([][]byte(nil), got...)
	mu.Unlock()
	for i, d := range delivered {
		if c.L > 0 && len(d) > c.L {
			res.Err = fmt.Errorf("path %s (tls=%v): a message of %d bytes was delivered; the limit is %d", c.Path, c.TLS, len(d), c.L)
			return res
		}
		if i >= len(want) || string(d) != string(want[i]) {
			res.Err = fmt.Errorf("path %s (tls=%v): delivered message %d (%d bytes) is not the %d. message sent", c.Path, c.TLS, i, len(d), i+1)
			return res
		}
	}
	if len(delivered) != len(want) {
		// a compressed message of exactly the limit may be refused (open class of the in-memory tier)
		exact := false
		if compress && len(delivered) < len(want) && len(want[len(delivered)]) == c.L {
			exact = true
		}
		if !exact {
			res.Err = fmt.Errorf("path %s (tls=%v): %d messages within the limit %d were sent, %d delivered", c.Path, c.TLS, len(want), c.L, len(delivered))
			return res
		}
		res.Classes = append(res.Classes, "open: compressed message of exactly the limit")
		return res
	}
	if over >= 0 {
		res.Classes = append(res.Classes, "over-limit-message-sent")
		if !r.closed {
			res.Err = fmt.Errorf("path %s (tls=%v): a message of %d bytes (limit %d) did not fail the connection: still open 3 s later", c.Path, c.TLS, c.Sizes[over], c.L)
			return res
		}
		if r.closeCode != 1009 {
			res.Classes = append(res.Classes, fmt.Sprintf("close-code-seen=%d", r.closeCode))
			// the 1009 reply can be destroyed by a reset when unread input is left in the server's socket
			// (fragments sent behind the one that crossed the limit): only asserted when nothing was left
			if c.Frag == 0 && !compress {
				res.Err = fmt.Errorf("path %s (tls=%v): a message of %d bytes in one frame (limit %d) was answered with close code %d, want 1009", c.Path, c.TLS, c.Sizes[over], c.L, r.closeCode)
				return res
			}
		}
		res.NonTrivial = true
	} else {
		res.NonTrivial = len(want) >= 2
	}
	return res
}

func pathCells() []PathCase {
	var out []PathCase
	for _, p := range pathNames {
		for _, tl := range []bool{false, true} {
			if tl && (p == "std-readloop" || p == "std-transfer" || p == "std-handleread") {
				continue
			}
			out = append(out, PathCase{Path: p, TLS: tl, Mode: vlib.ModeLT, L: 1000, Sizes: []int{10, 1000, 1001, 5}, Kind: "ascii"})
			out = append(out, PathCase{Path: p, TLS: tl, Mode: vlib.ModeLT, L: 3000, Sizes: []int{2999, 70000}, Frag: 1000, Kind: "ascii"})
			out = append(out, PathCase{Path: p, TLS: tl, Mode: vlib.ModeLT, L: 3000, Sizes: []int{100, 1 << 20}, Compress: true, Kind: "zeros"})
		}
	}
	return out
}

func genPath(t *rapid.T) PathCase {
	c := PathCase{Path: rapid.SampledFrom(pathNames).Draw(t, "path"), Mode: rapid.SampledFrom(vlib.Modes).Draw(t, "mode")}
	if c.Path != "std-readloop" && c.Path != "std-transfer" && c.Path != "std-handleread" {
		c.TLS = rapid.Bool().Draw(t, "tls")
	}
	c.L = rapid.SampledFrom([]int{1, 125, 1000, 3000, 65536}).Draw(t, "limit")
	n := rapid.IntRange(1, 4).Draw(t, "nmsgs")
	for i := 0; i < n; i++ {
		c.Sizes = append(c.Sizes, rapid.SampledFrom([]int{0, 1, c.L - 1, c.L, c.L + 1, 2*c.L + 1, 20 * c.L}).Draw(t, "size"))
	}
	for i := range c.Sizes {
		if c.Sizes[i] < 0 {
			c.Sizes[i] = 0
		}
	}
	c.Frag = rapid.SampledFrom([]int{0, 0, 1, 100, 1000, 70000}).Draw(t, "frag")
	if c.Frag == 1 && c.L > 3000 {
		c.Frag = 100
	}
	c.Compress = rapid.IntRange(0, 2).Draw(t, "compress") == 0
	c.Kind = rapid.SampledFrom([]string{"ascii", "zeros", "pattern", "random"}).Draw(t, "kind")
	return c
}
