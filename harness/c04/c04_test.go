package c04

import (
	"context"
	"fmt"
	"net"
	"os"
	"sync"
	"sync/atomic"
	"syscall"
	"testing"
	"time"

	"verifharness/vlib"

	"github.com/lesismal/nbio"
	"pgregory.net/rapid"
)

type Case struct {
	Transport string `json:"transport"`
	Mode      string `json:"mode"`
	Origin    string `json:"origin"` // goroutine, onopen, ondata, onclose-other, timer
	Sizes     []int  `json:"sizes"`  // consecutive writes issued at the origin
	SndBuf    int    `json:"sndbuf"`
	RcvBuf    int    `json:"peer_rcvbuf"`
	PauseMs   int    `json:"peer_pause_ms"`
	ReadChunk int    `json:"peer_read_chunk"`
	DelayUs   int    `json:"peer_delay_us"`
	NPoller   int    `json:"npoller"`
	Repeat    int    `json:"repeat,omitempty"` // the Sizes list is issued this many times (0 = once): many queue entries
	// API: how the bytes are handed over at the origin: write (default), writev (two buffers), sendfile
	// (from a file), mixed (rotating)
	API string `json:"api,omitempty"`
	// Birth: how the connection came to the engine: "" = AddConn of an established socket, "dial" = DialAsync
	// (tcp; the origin "onopen" then means: inside the dial callback)
	Birth string `json:"birth,omitempty"`
	// ChatterEvery: the peer sends one byte after every n-th read while it drains (0 = it only reads), so that
	// readability and writability of the connection change at the same time; OnDataHoldUs: the data callback
	// takes this long (the poller is busy and harvests both changes in one event afterwards)
	ChatterEvery int `json:"peer_chatter_every,omitempty"`
	OnDataHoldUs int `json:"ondata_hold_us,omitempty"`
}

const window = 4 * time.Second

// dialPair brings a connection to the engine through DialAsync: the harness listens, the engine dials, the
// callback gets the connection (inside runs before dialPair returns).
func dialPair(g *nbio.Engine, sndbuf, rcvbuf int, inside func(*nbio.Conn)) (*nbio.Conn, net.Conn, error) {
	// the receive buffer is set on the listening socket (accepted sockets inherit it, so that the window is
	// right from the handshake on; shrinking it on an established connection makes the transfer crawl)
	lc := net.ListenConfig{Control: func(network, address string, rc syscall.RawConn) error {
		if rcvbuf <= 0 {
			return nil
		}
		return rc.Control(func(fd uintptr) { _ = syscall.SetsockoptInt(int(fd), syscall.SOL_SOCKET, syscall.SO_RCVBUF, rcvbuf) })
	}}
	ln, err := lc.Listen(context.Background(), "tcp", "127.0.0.1:0")
	if err != nil {
		return nil, nil, err
	}
	defer ln.Close()
	type dres struct {
		c   *nbio.Conn
		err error
	}
	ch := make(chan dres, 1)
	if err := g.DialAsync("tcp", ln.Addr().String(), func(dc *nbio.Conn, err error) {
		if err == nil {
			if sndbuf > 0 {
				if rc, e := dc.SyscallConn(); e == nil {
					_ = rc.Control(func(fd uintptr) { _ = syscall.SetsockoptInt(int(fd), syscall.SOL_SOCKET, syscall.SO_SNDBUF, sndbuf) })
				}
			}
			inside(dc)
		}
		ch <- dres{dc, err}
	}); err != nil {
		return nil, nil, err
	}
	_ = ln.(*net.TCPListener).SetDeadline(time.Now().Add(5 * time.Second))
	peer, err := ln.Accept()
	if err != nil {
		return nil, nil, err
	}
	select {
	case r := <-ch:
		if r.err != nil {
			peer.Close()
			return nil, nil, r.err
		}
		return r.c, peer, nil
	case <-time.After(5 * time.Second):
		peer.Close()
		return nil, nil, fmt.Errorf("dial callback not invoked within 5 s")
	}
}

// scratchDir: memory-backed when available, so that preparing a file of a few MiB does not take seconds on a
// busy disk ("" = the default temporary directory)
func scratchDir() string {
	if st, err := os.Stat("/dev/shm"); err == nil && st.IsDir() {
		return "/dev/shm"
	}
	return ""
}

func apiOf(api string, i int) string {
	switch api {
	case "writev", "sendfile":
		return api
	case "mixed":
		return []string{"sendfile", "write", "writev"}[i%3]
	}
	return "write"
}

// sendVia hands data to the connection through the drawn API; a Sendfile reads it from a scratch file.
func sendVia(conn *nbio.Conn, api string, i int, data []byte) (int, error) {
	switch apiOf(api, i) {
	case "writev":
		h := len(data) / 2
		return conn.Writev([][]byte{data[:h], data[h:]})
	case "sendfile":
		if len(data) == 0 {
			return 0, nil
		}
		f, err := os.CreateTemp(scratchDir(), "c04sf")
		if err != nil {
			return 0, fmt.Errorf("harness: temp file: %v", err)
		}
		defer os.Remove(f.Name())
		defer f.Close()
		if _, err := f.Write(data); err != nil {
			return 0, fmt.Errorf("harness: temp file: %v", err)
		}
		if _, err := f.Seek(0, 0); err != nil {
			return 0, fmt.Errorf("harness: temp file: %v", err)
		}
		n, err := conn.Sendfile(f, int64(len(data)))
		return int(n), err
	}
	return conn.Write(data)
}

var Origins = []string{"goroutine", "onopen", "ondata", "onclose-other", "timer"}

func runCase(c Case) vlib.Result {
	res := vlib.Result{Classes: []string{"mode=" + c.Mode, "origin=" + c.Origin, "transport=" + c.Transport, "cell=" + c.Mode + "/" + c.Origin + "/" + c.Transport}}
	conf := nbio.Config{NPoller: c.NPoller}
	vlib.ApplyMode(&conf, c.Mode)
	g := nbio.NewEngine(conf)
	if c.Repeat > 1 {
		one := c.Sizes
		c.Sizes = nil
		for i := 0; i < c.Repeat; i++ {
			c.Sizes = append(c.Sizes, one...)
		}
	}
	total := 0
	for _, s := range c.Sizes {
		total += s
	}
	var target atomic.Pointer[nbio.Conn]
	var writeErr atomic.Value
	var accepted int64
	var once sync.Once
	doWrites := func(conn *nbio.Conn) {
		once.Do(func() {
			pos := int64(0)
			for i, s := range c.Sizes {
				n, err := sendVia(conn, c.API, i, vlib.FillTagged(0, pos, s))
				if err != nil || n != s {
					writeErr.Store(fmt.Sprintf("%s of %d bytes returned (%d, %v)", apiOf(c.API, i), s, n, err))
					return
				}
				pos += int64(s)
				atomic.AddInt64(&accepted, int64(s))
			}
		})
	}
	var mainFD atomic.Int64
	mainFD.Store(-1)
	var kernelWrites int64
	g.OnWrittenSize(func(conn *nbio.Conn, b []byte, n int) { atomic.AddInt64(&kernelWrites, 1) })
	var opened int64
	g.OnOpen(func(conn *nbio.Conn) {
		if c.Birth == "dial" {
			return // the connection under test comes from the dial callback
		}
		if atomic.AddInt64(&opened, 1) == 1 {
			target.Store(conn)
			if c.Origin == "onopen" {
				doWrites(conn)
			}
		}
	})
	g.OnData(func(conn *nbio.Conn, data []byte) {
		if c.Origin == "ondata" && conn == target.Load() {
			doWrites(conn)
		}
		if c.OnDataHoldUs > 0 && conn == target.Load() {
			time.Sleep(time.Duration(c.OnDataHoldUs) * time.Microsecond)
		}
	})
	var closeErr atomic.Value
	g.OnClose(func(conn *nbio.Conn, err error) {
		if conn == target.Load() {
			closeErr.Store(fmt.Sprintf("%v", err))
			return
		}
		if c.Origin == "onclose-other" {
			if t := target.Load(); t != nil {
				doWrites(t)
			}
		}
	})
	if err := g.Start(); err != nil {
		return vlib.Fail("harness: engine start: %v", err)
	}
	stopped := false
	defer func() {
		if !stopped {
			vlib.StopEngine(g.Stop, 10*time.Second)
		}
	}()
	var nbc *nbio.Conn
	var peer net.Conn
	if c.Birth == "dial" {
		var err error
		nbc, peer, err = dialPair(g, c.SndBuf, c.RcvBuf, func(dc *nbio.Conn) {
			target.Store(dc)
			if c.Origin == "onopen" {
				doWrites(dc)
			}
		})
		if err != nil {
			return vlib.Fail("harness: dial pair: %v", err)
		}
		res.Classes = append(res.Classes, "birth=dial")
	} else {
		a, p, err := vlib.StreamPair(c.Transport, c.SndBuf, c.RcvBuf)
		if err != nil {
			return vlib.Fail("harness: socket pair: %v", err)
		}
		peer = p
		nbc, err = g.AddConn(a)
		if err != nil {
			return vlib.Fail("harness: AddConn: %v", err)
		}
	}
	defer peer.Close()
	switch c.Origin {
	case "goroutine":
		go doWrites(nbc)
	case "ondata":
		_, _ = peer.Write([]byte("go"))
	case "timer":
		g.AfterFunc(2*time.Millisecond, func() { doWrites(nbc) })
	case "onclose-other":
		a2, p2, err := vlib.StreamPair("tcp", 0, 0)
		if err != nil {
			return vlib.Fail("harness: second pair: %v", err)
		}
		if _, err := g.AddConn(a2); err != nil {
			return vlib.Fail("harness: AddConn 2: %v", err)
		}
		_ = p2.Close()
	}
	// peer: pause, then read ReadChunk every DelayUs
	time.Sleep(time.Duration(c.PauseMs) * time.Millisecond)
	buf := make([]byte, c.ReadChunk)
	received := int64(0)
	last := time.Now()
	lastAccepted := int64(0)
	reads := 0
	if c.ChatterEvery > 0 {
		res.Classes = append(res.Classes, "peer sends while it drains")
	}
	for received < int64(total) {
		if a := atomic.LoadInt64(&accepted); a != lastAccepted {
			// the no-progress window counts from the moment there is something (more) to deliver
			if lastAccepted <= received {
				last = time.Now() // nothing was outstanding until now
			}
			lastAccepted = a
		}
		_ = peer.SetReadDeadline(time.Now().Add(200 * time.Millisecond))
		n, err := peer.Read(buf)
		if n > 0 {
			if bad := vlib.CheckTagged(0, received, buf[:n]); bad >= 0 {
				res.Err = fmt.Errorf("stream offset %d: wrong byte %#x (want %#x): data lost, duplicated or reordered in the backlog", received+int64(bad), buf[bad], vlib.TagByte(0, received+int64(bad)))
				return res
			}
			received += int64(n)
			last = time.Now()
			reads++
			if c.ChatterEvery > 0 && reads%c.ChatterEvery == 0 {
				_ = peer.SetWriteDeadline(time.Now().Add(50 * time.Millisecond))
				_, _ = peer.Write([]byte{'x'})
			}
		}
		if err != nil {
			if ne, ok := err.(net.Error); ok && ne.Timeout() {
				if v := writeErr.Load(); v != nil {
					res.Err = fmt.Errorf("%s (origin %s; peer alive)", v.(string), c.Origin)
					return res
				}
				if atomic.LoadInt64(&accepted) <= received {
					// nothing accepted is outstanding (the origin has not written yet, or is preparing its next
					// piece): no backlog, nothing to wait for
					if time.Since(last) > 10*window {
						res.Err = fmt.Errorf("the write origin %s had issued only %d of %d planned bytes after %v (the callback it runs in was never invoked, or a write call is stuck)", c.Origin, atomic.LoadInt64(&accepted), total, 10*window)
						return res
					}
					continue
				}
				if time.Since(last) > window {
					isClosed, cerr := nbc.IsClosed()
					res.Err = fmt.Errorf("stall: %d of %d accepted bytes (planned %d) reached the peer and nothing more for %v although the peer keeps reading (conn closed=%v %v, OnClose=%v, kernel writes seen=%d)",
						received, atomic.LoadInt64(&accepted), total, window, isClosed, cerr, closeErr.Load(), atomic.LoadInt64(&kernelWrites))
					return res
				}
				continue
			}
			res.Err = fmt.Errorf("peer read failed after %d of %d bytes: %v (OnClose=%v)", received, total, err, closeErr.Load())
			return res
		}
		if c.DelayUs > 0 {
			time.Sleep(time.Duration(c.DelayUs) * time.Microsecond)
		}
	}
	// nothing beyond the accepted bytes may arrive
	_ = peer.SetReadDeadline(time.Now().Add(20 * time.Millisecond))
	if n, _ := peer.Read(buf); n > 0 {
		res.Err = fmt.Errorf("%d extra bytes after the %d accepted ones (duplicated data)", n, total)
		return res
	}
	res.NonTrivial = atomic.LoadInt64(&kernelWrites) >= 3
	if res.NonTrivial {
		res.Classes = append(res.Classes, "multi-flush-backlog")
	}
	_ = nbc.Close()
	stopped = true
	if !vlib.StopEngine(g.Stop, 10*time.Second) {
		res.Classes = append(res.Classes, "stop-hung(C18 subject)")
	}
	return res
}

func cells() []Case {
	var out []Case
	for _, m := range vlib.Modes {
		for _, tr := range []string{"tcp", "unix"} {
			for _, o := range Origins {
				out = append(out, Case{Transport: tr, Mode: m, Origin: o, Sizes: []int{1 << 20, 300000}, SndBuf: 8192, RcvBuf: 8192, PauseMs: 20, ReadChunk: 65536, DelayUs: 0, NPoller: 1})
			}
			if tr == "tcp" {
				for _, o := range []string{"onopen", "goroutine", "timer"} {
					out = append(out, Case{Transport: tr, Mode: m, Origin: o, Birth: "dial", Sizes: []int{1 << 20, 300000}, SndBuf: 8192, RcvBuf: 8192, PauseMs: 20, ReadChunk: 65536, DelayUs: 0, NPoller: 1})
				}
			}
			for _, o := range []string{"onopen", "goroutine", "ondata"} {
				out = append(out, Case{Transport: tr, Mode: m, Origin: o, API: "sendfile", Sizes: []int{4 << 20}, SndBuf: 8192, RcvBuf: 8192, PauseMs: 20, ReadChunk: 65536, DelayUs: 0, NPoller: 1})
			}
			// deep backlog (hundreds of queue entries), autotuned kernel buffers and a peer that first
			// lets everything pile up and then reads as fast as it can: one writability event is followed
			// by a long run of successful writes
			out = append(out, Case{Transport: tr, Mode: m, Origin: "goroutine", Sizes: []int{40960, 70000}, Repeat: 300, SndBuf: 0, RcvBuf: 0, PauseMs: 30, ReadChunk: 1 << 20, DelayUs: 0, NPoller: 1})
		}
	}
	return out
}

func gen(t *rapid.T) Case {
	c := Case{Transport: rapid.SampledFrom([]string{"tcp", "tcp", "unix"}).Draw(t, "transport"), Mode: rapid.SampledFrom(vlib.Modes).Draw(t, "mode"), Origin: rapid.SampledFrom(Origins).Draw(t, "origin")}
	n := rapid.IntRange(1, 3).Draw(t, "nwrites")
	for i := 0; i < n; i++ {
		c.Sizes = append(c.Sizes, rapid.SampledFrom([]int{1, 4096, 65536, 65537, 200000, 1 << 20, 3 << 20, 8 << 20}).Draw(t, "size")+rapid.IntRange(0, 3).Draw(t, "sizedelta"))
	}
	c.SndBuf = rapid.SampledFrom([]int{4096, 8192, 65536, 0}).Draw(t, "sndbuf")
	c.RcvBuf = rapid.SampledFrom([]int{4096, 8192, 65536, 0}).Draw(t, "rcvbuf")
	c.PauseMs = rapid.SampledFrom([]int{0, 1, 5, 30, 80}).Draw(t, "pausems")
	c.ReadChunk = rapid.SampledFrom([]int{512, 4096, 65536, 1 << 20}).Draw(t, "readchunk")
	c.DelayUs = rapid.SampledFrom([]int{0, 0, 50, 500, 3000}).Draw(t, "delayus")
	c.NPoller = rapid.IntRange(1, 3).Draw(t, "npoller")
	c.API = rapid.SampledFrom([]string{"", "", "writev", "sendfile", "mixed"}).Draw(t, "api")
	if c.Transport == "tcp" && c.Origin != "ondata" && rapid.IntRange(0, 3).Draw(t, "dialbirth") == 0 {
		c.Birth = "dial"
	}
	if rapid.IntRange(0, 4).Draw(t, "deepfast") == 0 {
		// deep backlog, autotuned buffers, fast reader (see cells)
		// every write is bigger than half the 64 KiB coalescing limit, so each one is a queue entry of its own
		c.Sizes = []int{rapid.SampledFrom([]int{40960, 65536, 70000}).Draw(t, "deepsize")}
		c.Repeat = rapid.SampledFrom([]int{40, 200, 600}).Draw(t, "deeprepeat")
		if c.API == "sendfile" || c.API == "mixed" {
			c.API = "writev" // hundreds of writes: not one scratch file each
		}
		c.SndBuf, c.RcvBuf, c.DelayUs = 0, 0, 0
		c.PauseMs = rapid.SampledFrom([]int{5, 30, 80}).Draw(t, "deeppause")
		c.ReadChunk = rapid.SampledFrom([]int{65536, 1 << 20}).Draw(t, "deepchunk")
	}
	// keep a case affordable: total/readchunk*delay bounded to ~2 s
	total := 0
	for _, s := range c.Sizes {
		total += s
	}
	if c.Repeat > 1 {
		total *= c.Repeat
	}
	if total/c.ReadChunk*c.DelayUs > 2000000 {
		c.DelayUs = 0
	}
	if total/c.ReadChunk > 20000 {
		c.ReadChunk = 65536
	}
	if rapid.IntRange(0, 2).Draw(t, "chatter") == 0 {
		c.ChatterEvery = rapid.SampledFrom([]int{1, 1, 4}).Draw(t, "chatterevery")
		c.OnDataHoldUs = rapid.SampledFrom([]int{0, 200, 2000}).Draw(t, "ondatahold")
		if total/c.ReadChunk/c.ChatterEvery*c.OnDataHoldUs > 2000000 {
			c.OnDataHoldUs = 0
		}
	}
	return c
}

func TestCheck(t *testing.T) {
	r := vlib.NewRunner(t, "C04")
	vlib.RunCases(r, "cells", cells(), runCase, true)
	r.MarkExhaustive("matrix cells mode x transport x origin (30 cells with one fixed workload each, plus one deep-backlog / fast-reader cell per mode x transport)")
	vlib.RunCheck(r, vlib.Check[Case]{Name: "pacing", N: r.Pick(500, 8000), Gen: gen, Run: runCase, Confirm: true, RecordCurrent: true})
	runShimTier(r)
	r.Finish()
}
