//go:build verifshim

package c04

import (
	"fmt"
	"net"
	"sync"
	"sync/atomic"
	"time"

	"verifharness/vlib"

	"github.com/lesismal/nbio"
	"pgregory.net/rapid"
)

// Syscall-shim tier of C04: the point at which the "kernel" reports a full buffer is scripted per
// write/writev system call of the connection under test (pass, short write of k bytes, EINTR, EAGAIN),
// for writes issued at every origin. The peer reads all the time, so every accepted byte has to arrive
// without any further call by the application; afterwards the connection must hold no backlog and, in
// level-triggered mode, must have dropped its write interest. Short writes and EAGAIN are only injected
// in LT and ET+ONESHOT (an injected refusal on a writable socket is re-evaluated by EPOLL_CTL_MOD / the
// level trigger exactly like a real one); plain ET gets EINTR only.

type Decision struct {
	Kind int  `json:"kind"` // 0 pass, 1 truncate, 2 EINTR, 3 EAGAIN
	K    int  `json:"k,omitempty"`
	Rel  bool `json:"rel,omitempty"`
}

type ShimCase struct {
	Transport string     `json:"transport"`
	Mode      string     `json:"mode"`
	Origin    string     `json:"origin"`
	Sizes     []int      `json:"sizes"`
	Script    []Decision `json:"script"`
	NPoller   int        `json:"npoller"`
	// API: how the bytes are handed over at the origin: write (default), writev (two buffers), sendfile
	// (from a file), mixed (rotating)
	API string `json:"api,omitempty"`
}

func runShim(c ShimCase) vlib.Result {
	res := vlib.Result{Classes: []string{"shim", "mode=" + c.Mode, "origin=" + c.Origin, "shimcell=" + c.Mode + "/" + c.Origin}}
	conf := nbio.Config{NPoller: c.NPoller}
	vlib.ApplyMode(&conf, c.Mode)
	g := nbio.NewEngine(conf)
	total := 0
	for _, s := range c.Sizes {
		total += s
	}
	var target atomic.Pointer[nbio.Conn]
	var writeErr atomic.Value
	var accepted int64
	var once sync.Once
	doWrites := func(conn *nbio.Conn) {
		once.Do(func() {
			pos := int64(0)
			for i, s := range c.Sizes {
				n, err := sendVia(conn, c.API, i, vlib.FillTagged(0, pos, s))
				if err != nil || n != s {
					writeErr.Store(fmt.Sprintf("%s of %d bytes returned (%d, %v)", apiOf(c.API, i), s, n, err))
					return
				}
				pos += int64(s)
				atomic.AddInt64(&accepted, int64(s))
			}
		})
	}
	var opened int64
	g.OnOpen(func(conn *nbio.Conn) {
		if atomic.AddInt64(&opened, 1) == 1 {
			target.Store(conn)
			if c.Origin == "onopen" {
				doWrites(conn)
			}
		}
	})
	g.OnData(func(conn *nbio.Conn, data []byte) {
		if c.Origin == "ondata" && conn == target.Load() {
			doWrites(conn)
		}
	})
	var closeErr atomic.Value
	g.OnClose(func(conn *nbio.Conn, err error) {
		if conn == target.Load() {
			closeErr.Store(fmt.Sprintf("%v", err))
			return
		}
		if c.Origin == "onclose-other" {
			if t := target.Load(); t != nil {
				doWrites(t)
			}
		}
	})
	if err := g.Start(); err != nil {
		return vlib.Fail("harness: engine start: %v", err)
	}
	defer vlib.StopEngine(g.Stop, 10*time.Second)
	a, peer, err := vlib.StreamPair(c.Transport, 0, 0)
	if err != nil {
		return vlib.Fail("harness: socket pair: %v", err)
	}
	defer peer.Close()
	nbc, err := nbio.NBConn(a)
	if err != nil {
		return vlib.Fail("harness: NBConn: %v", err)
	}
	fd := -1
	if rc, e := nbc.SyscallConn(); e == nil {
		_ = rc.Control(func(f uintptr) { fd = int(f) })
	}
	var idx int64
	var injected [4]int64
	nbio.VerifSetHook(func(op string, f int, n int) (int, int) {
		if f != fd || op == "read" || len(c.Script) == 0 {
			return nbio.VerifPass, 0
		}
		d := c.Script[int(atomic.AddInt64(&idx, 1)-1)%len(c.Script)]
		k := d.K
		if d.Rel {
			k = n - d.K
		}
		if d.Kind == nbio.VerifTruncate && (k < 1 || k >= n) {
			return nbio.VerifPass, 0
		}
		atomic.AddInt64(&injected[d.Kind], 1)
		return d.Kind, k
	})
	defer nbio.VerifSetHook(nil)

	// the peer reads all the time
	var received int64
	var bad atomic.Value
	stopRead := make(chan struct{})
	readDone := make(chan struct{})
	go func() {
		defer close(readDone)
		buf := make([]byte, 1<<18)
		for {
			select {
			case <-stopRead:
				return
			default:
			}
			_ = peer.SetReadDeadline(time.Now().Add(50 * time.Millisecond))
			n, err := peer.Read(buf)
			if n > 0 {
				if i := vlib.CheckTagged(0, atomic.LoadInt64(&received), buf[:n]); i >= 0 && bad.Load() == nil {
					bad.Store(fmt.Sprintf("stream offset %d: wrong byte %#x: data lost, duplicated or reordered in the backlog", atomic.LoadInt64(&received)+int64(i), buf[i]))
				}
				atomic.AddInt64(&received, int64(n))
			}
			if err != nil {
				if ne, ok := err.(net.Error); ok && ne.Timeout() {
					continue
				}
				return
			}
		}
	}()
	defer func() {
		select {
		case <-stopRead:
		default:
			close(stopRead)
		}
		<-readDone
	}()

	if _, err := g.AddConn(nbc); err != nil {
		return vlib.Fail("harness: AddConn: %v", err)
	}
	switch c.Origin {
	case "goroutine":
		go doWrites(nbc)
	case "ondata":
		_, _ = peer.Write([]byte("go"))
	case "timer":
		g.AfterFunc(time.Millisecond, func() { doWrites(nbc) })
	case "onclose-other":
		a2, p2, err := vlib.StreamPair("unix", 0, 0)
		if err != nil {
			return vlib.Fail("harness: second pair: %v", err)
		}
		if _, err := g.AddConn(a2); err != nil {
			return vlib.Fail("harness: AddConn 2: %v", err)
		}
		_ = p2.Close()
	}
	ok := vlib.WaitUntil(window, func() bool {
		return writeErr.Load() != nil || (atomic.LoadInt64(&accepted) == int64(total) && atomic.LoadInt64(&received) >= int64(total))
	})
	if v := writeErr.Load(); v != nil {
		res.Err = fmt.Errorf("%s (origin %s; peer alive and reading; only short writes, EINTR and EAGAIN were injected)", v.(string), c.Origin)
		return res
	}
	left, queued, files, wAdded, closed := nbio.VerifBacklog(nbc)
	if !ok {
		res.Err = fmt.Errorf("stall: %d of %d accepted bytes (planned %d) reached the peer within %v although the peer reads all the time (queue: left=%d queued=%d files=%d writeArmed=%v closed=%v OnClose=%v; injected short=%d EINTR=%d EAGAIN=%d)",
			atomic.LoadInt64(&received), atomic.LoadInt64(&accepted), total, window, left, queued, files, wAdded, closed, closeErr.Load(), injected[1], injected[2], injected[3])
		return res
	}
	time.Sleep(2 * time.Millisecond)
	if v := bad.Load(); v != nil {
		res.Err = fmt.Errorf("%s", v.(string))
		return res
	}
	if n := atomic.LoadInt64(&received); n != int64(total) {
		res.Err = fmt.Errorf("%d bytes accepted, %d reached the peer (duplicated data)", total, n)
		return res
	}
	// drained: no backlog accounted, and a level-triggered registration must have dropped its write
	// interest (it would otherwise report writability for ever)
	drained := vlib.WaitUntil(time.Second, func() bool {
		left, queued, files, wAdded, _ = nbio.VerifBacklog(nbc)
		return left == 0 && queued == 0 && files == 0 && (c.Mode != vlib.ModeLT || !wAdded)
	})
	if !drained {
		res.Err = fmt.Errorf("everything was delivered but the connection is not at rest after 1 s: left=%d queued bytes=%d files=%d write interest armed=%v (mode %s)", left, queued, files, wAdded, c.Mode)
		return res
	}
	res.NonTrivial = injected[1]+injected[3] > 0 || injected[2] > 0
	if injected[1] > 0 {
		res.Classes = append(res.Classes, "injected=short-write")
	}
	if injected[2] > 0 {
		res.Classes = append(res.Classes, "injected=EINTR")
	}
	if injected[3] > 0 {
		res.Classes = append(res.Classes, "injected=EAGAIN")
	}
	return res
}

func genShim(t *rapid.T) ShimCase {
	c := ShimCase{Transport: rapid.SampledFrom([]string{"tcp", "unix"}).Draw(t, "transport"), Mode: rapid.SampledFrom(vlib.Modes).Draw(t, "mode"),
		Origin: rapid.SampledFrom(Origins).Draw(t, "origin"), NPoller: rapid.IntRange(1, 2).Draw(t, "npoller")}
	n := rapid.IntRange(1, 4).Draw(t, "nwrites")
	for i := 0; i < n; i++ {
		c.Sizes = append(c.Sizes, rapid.SampledFrom([]int{1, 2, 100, 4096, 65535, 65536, 65537, 70000, 200000}).Draw(t, "size"))
	}
	c.API = rapid.SampledFrom([]string{"", "", "writev", "sendfile", "mixed"}).Draw(t, "api")
	ns := rapid.IntRange(1, 12).Draw(t, "nscript")
	for i := 0; i < ns; i++ {
		var d Decision
		kinds := []int{0, 1, 1, 2, 3, 3}
		if c.Mode == vlib.ModeET {
			kinds = []int{0, 0, 2}
		}
		d.Kind = rapid.SampledFrom(kinds).Draw(t, "kind")
		if d.Kind == 1 {
			d.K = rapid.SampledFrom([]int{1, 2, 3, 100, 4095, 4096, 65535, 65536}).Draw(t, "k")
			d.Rel = rapid.Bool().Draw(t, "rel")
		}
		c.Script = append(c.Script, d)
	}
	c.Script = append(c.Script, Decision{Kind: 0}) // the script always lets something through eventually
	return c
}

func runShimTier(r *vlib.Runner) {
	vlib.RunCheck(r, vlib.Check[ShimCase]{Name: "shim", N: r.Pick(2400, 80000), Gen: genShim, Run: runShim, Confirm: true, RecordCurrent: true})
}
