package c18

import (
	"context"
	"fmt"
	"io"
	"net"
	"net/http"
	"os"
	"path/filepath"
	"regexp"
	"runtime"
	"sort"
	"strings"
	"sync"
	"sync/atomic"
	"syscall"
	"testing"
	"time"

	"verifharness/vlib"

	"github.com/lesismal/nbio"
	"github.com/lesismal/nbio/nbhttp"
	"github.com/lesismal/nbio/nbhttp/websocket"
	"pgregory.net/rapid"
)

type Act struct {
	K string `json:"k"` // client, client-traffic, client-close, addconn, dial, dial-refused, backlog, sendfile, backlog-sendfile, fardeadline, serverclose, overflow, write-after-reset, ws, ws-transfer, ws-traffic, ws-transfer-traffic
}

type Case struct {
	Kind      string `json:"kind"` // core, http
	Mode      string `json:"mode"`
	Async     bool   `json:"async_read"`
	NPoller   int    `json:"npoller"`
	NListen   int    `json:"nlisten"`
	IOMod     int    `json:"io_mod"`
	Acts      []Act  `json:"acts"`
	Storm     bool   `json:"connect_storm"`
	RaceWrite bool   `json:"race_writes_and_closes"`
	StopUs    int    `json:"stop_after_start_us"` // -1: after the history
	RefuseNth int    `json:"close_every_nth_conn_inside_onopen,omitempty"`
	Shutdown  bool   `json:"shutdown_ctx"`
	// Mass: this many idle client connections are opened before the history (hundreds to thousands of
	// connections to close and to notify when the engine stops)
	Mass int `json:"mass_connections,omitempty"`
	// YieldPerMille (instrumented build only): probability, in 1/1000, with which every lock / unlock
	// statement of the library yields the processor or sleeps 1-50 us (schedule perturbation)
	YieldPerMille int `json:"yield_per_mille,omitempty"`
}

var frameRE = regexp.MustCompile(`lesismal/nbio[^\s]*`)

func nbioGoroutines() map[string]int {
	buf := make([]byte, 1<<20)
	for {
		n := runtime.Stack(buf, true)
		if n < len(buf) {
			buf = buf[:n]
			break
		}
		buf = make([]byte, 2*len(buf))
	}
	out := map[string]int{}
	for _, g := range strings.Split(string(buf), "\n\n") {
		if !strings.Contains(g, "lesismal/nbio") {
			continue
		}
		// signature: the nbio frames of the stack
		sig := strings.Join(frameRE.FindAllString(g, 6), " < ")
		out[sig]++
	}
	return out
}

func extra(base, now map[string]int) []string {
	var out []string
	for k, v := range now {
		if v > base[k] {
			out = append(out, fmt.Sprintf("%dx %s", v-base[k], k))
		}
	}
	sort.Strings(out)
	return out
}

var (
	refusedOnce sync.Once
	refusedA    string
)

// refusedAddr returns an address that refuses connections for the life of the process: a socket that
// is bound (so no other process can take the port) but never listens.
func refusedAddr() string {
	refusedOnce.Do(func() {
		fd, err := syscall.Socket(syscall.AF_INET, syscall.SOCK_STREAM, 0)
		if err != nil {
			return
		}
		if syscall.Bind(fd, &syscall.SockaddrInet4{Addr: [4]byte{127, 0, 0, 1}}) != nil {
			return
		}
		sa, _ := syscall.Getsockname(fd)
		refusedA = fmt.Sprintf("127.0.0.1:%d", sa.(*syscall.SockaddrInet4).Port)
	})
	return refusedA
}

func init() {
	// initialise the Go netpoller etc. before any baseline is taken
	l, err := net.Listen("tcp", "127.0.0.1:0")
	if err == nil {
		c, _ := net.Dial("tcp", l.Addr().String())
		if c != nil {
			c.Close()
		}
		l.Close()
	}
}

func runCase(c Case) vlib.Result {
	defer vlib.Yield(c.YieldPerMille, 0x5eed)()
	res := vlib.Result{Classes: []string{"kind=" + c.Kind, "mode=" + c.Mode}}
	vlib.Logs.Take()
	time.Sleep(2 * time.Millisecond)
	runtime.GC()
	baseG := nbioGoroutines()
	baseFD := vlib.OpenFDs()

	var opens, closes, dialCalls int64
	var respawnPeer func(net.Conn)
	var stop func() error
	var addrs []string
	var core *nbio.Engine
	addrList := make([]string, c.NListen)
	for i := range addrList {
		addrList[i] = "127.0.0.1:0"
	}
	switch c.Kind {
	case "core":
		// a write-buffer bound, so that the "overflow" act can make a Write fail with a hard error
		conf := nbio.Config{Network: "tcp", Addrs: addrList, NPoller: c.NPoller, AsyncReadInPoller: c.Async, MaxWriteBufferSize: 4 << 20}
		vlib.ApplyMode(&conf, c.Mode)
		g := nbio.NewEngine(conf)
		g.OnOpen(func(conn *nbio.Conn) {
			n := atomic.AddInt64(&opens, 1)
			if c.RefuseNth > 0 && n%int64(c.RefuseNth) == 0 {
				_ = conn.Close() // e.g. a connection limit or an address filter refusing the connection
			}
		})
		g.OnClose(func(conn *nbio.Conn, _ error) {
			atomic.AddInt64(&closes, 1)
			if conn.Session() == "respawn" {
				// an application that replaces a lost connection from its close handler: when the close is
				// Stop's, the replacement is registered while Stop runs and has to be closed by it as well
				if a1, p, err := vlib.StreamPair("tcp", 4096, 4096); err == nil {
					respawnPeer(p)
					if _, err := g.AddConn(a1); err != nil {
						_ = a1.Close()
					}
				}
			}
		})
		g.OnData(func(conn *nbio.Conn, data []byte) { _, _ = conn.Write(data) })
		core = g
		var serr error
		if !vlib.StopEngine(func() { serr = g.Start() }, 15*time.Second) {
			res.Err = fmt.Errorf("Engine.Start did not return within 15 s; goroutines: %v", extra(baseG, nbioGoroutines()))
			return res
		}
		if err := serr; err != nil {
			return vlib.Fail("harness: engine start: %v", err)
		}
		addrs = g.Addrs
		stop = func() error {
			if c.Shutdown {
				ctx, cancel := context.WithTimeout(context.Background(), 30*time.Second)
				defer cancel()
				return g.Shutdown(ctx)
			}
			g.Stop()
			return nil
		}
	default:
		u := websocket.NewUpgrader() // default keep-alive (120 s): a pending timer per upgraded connection
		u.OnMessage(func(wc *websocket.Conn, mt websocket.MessageType, data []byte) { _ = wc.WriteMessage(mt, data) })
		mux := http.NewServeMux()
		mux.HandleFunc("/", func(w http.ResponseWriter, r *http.Request) { _, _ = w.Write([]byte("ok")) })
		mux.HandleFunc("/ws", func(w http.ResponseWriter, r *http.Request) { _, _ = u.Upgrade(w, r, nil) })
		mux.HandleFunc("/wst", func(w http.ResponseWriter, r *http.Request) { _, _ = u.UpgradeAndTransferConnToPoller(w, r, nil) })
		conf := nbhttp.Config{Network: "tcp", Addrs: addrList, NPoller: c.NPoller, IOMod: c.IOMod, MaxBlockingOnline: 2, AsyncReadInPoller: c.Async, Handler: mux}
		switch c.Mode {
		case vlib.ModeET:
			conf.EpollMod = nbio.EPOLLET
		case vlib.ModeOneshot:
			conf.EpollMod = nbio.EPOLLET
			conf.EPOLLONESHOT = nbio.EPOLLONESHOT
		}
		e := nbhttp.NewEngine(conf)
		u.Engine = e
		var hopens int64
		e.OnOpen(func(conn net.Conn) {
			n := atomic.AddInt64(&hopens, 1)
			if c.RefuseNth > 0 && n%int64(c.RefuseNth) == 0 {
				_ = conn.Close()
			}
		})
		var serr error
		if !vlib.StopEngine(func() { serr = e.Start() }, 15*time.Second) {
			res.Err = fmt.Errorf("nbhttp Engine.Start did not return within 15 s; goroutines: %v", extra(baseG, nbioGoroutines()))
			return res
		}
		if err := serr; err != nil {
			return vlib.Fail("harness: http engine start: %v", err)
		}
		addrs = e.Addrs
		stop = func() error {
			if c.Shutdown {
				ctx, cancel := context.WithTimeout(context.Background(), 30*time.Second)
				defer cancel()
				return e.Shutdown(ctx)
			}
			e.Stop()
			return nil
		}
	}

	var pmu sync.Mutex
	var peers []net.Conn
	var peerAt []time.Time
	addPeer := func(p net.Conn) {
		pmu.Lock()
		peers = append(peers, p)
		peerAt = append(peerAt, time.Now())
		pmu.Unlock()
	}
	respawnPeer = addPeer
	var helperLn net.Listener
	openAtStop := 0
	racing := 0
	if c.StopUs < 0 && c.Mass > 0 {
		res.Classes = append(res.Classes, "mass-connections")
		for i := 0; i < c.Mass; i++ {
			p, err := net.DialTimeout("tcp", addrs[i%len(addrs)], 3*time.Second)
			if err != nil {
				break
			}
			addPeer(p)
			openAtStop++
		}
		// let the engine accept them all
		if c.Kind == "core" {
			vlib.WaitUntil(3*time.Second, func() bool { return atomic.LoadInt64(&opens) >= int64(openAtStop) })
		} else {
			time.Sleep(50 * time.Millisecond)
		}
	}
	if c.StopUs < 0 {
		for _, a := range c.Acts {
			switch a.K {
			case "client", "client-traffic", "client-close":
				p, err := net.DialTimeout("tcp", addrs[len(peers)%len(addrs)], 3*time.Second)
				if err != nil {
					continue
				}
				addPeer(p)
				openAtStop++
				if a.K != "client" {
					if c.Kind == "http" {
						_, _ = p.Write([]byte("GET / HTTP/1.1\r\nHost: a\r\n\r\n"))
					} else {
						_, _ = p.Write([]byte("hello"))
					}
					buf := make([]byte, 256)
					_ = p.SetReadDeadline(time.Now().Add(2 * time.Second))
					_, _ = p.Read(buf)
				}
				if a.K == "client-close" {
					_ = p.Close()
					openAtStop--
				}
			case "ws", "ws-transfer", "ws-traffic", "ws-transfer-traffic":
				// a WebSocket connection (upgraded in place, or transferred to the poller) that is open, with its
				// keep-alive timer pending, when the engine stops
				if c.Kind != "http" {
					continue
				}
				p, err := net.DialTimeout("tcp", addrs[len(peers)%len(addrs)], 3*time.Second)
				if err != nil {
					continue
				}
				addPeer(p)
				openAtStop++
				path := "/ws"
				if strings.HasPrefix(a.K, "ws-transfer") {
					path = "/wst"
				}
				_ = p.SetDeadline(time.Now().Add(3 * time.Second))
				if cl, err := vlib.WSHandshake(p, path, false); err == nil && strings.HasSuffix(a.K, "traffic") {
					if cl.WriteMessage(vlib.OpText, []byte("hello")) == nil {
						_, _ = cl.ReadFrame()
					}
				}
				_ = p.SetDeadline(time.Time{})
			case "dial-fail-sync":
				// a dial whose connect(2) fails at once (no such unix socket): nothing may stay behind
				if core == nil {
					continue
				}
				err := core.DialAsync("unix", filepath.Join(os.TempDir(), fmt.Sprintf("verif-c18-nobody-%d.sock", os.Getpid())), func(nc *nbio.Conn, err error) {})
				if err == nil {
					atomic.AddInt64(&dialCalls, 1)
				}
			case "addconn", "respawn-on-close", "backlog", "sendfile", "backlog-sendfile", "fardeadline", "serverclose", "overflow", "write-after-reset":
				if core == nil {
					continue
				}
				a1, p, err := vlib.StreamPair("tcp", 4096, 4096)
				if err != nil {
					continue
				}
				addPeer(p)
				nbc, err := core.AddConn(a1)
				if err != nil {
					continue
				}
				openAtStop++
				switch a.K {
				case "backlog":
					_, _ = nbc.Write(make([]byte, 1<<20))
				case "sendfile", "backlog-sendfile":
					// a file transfer the peer does not read: the unsent tail of the file stays queued with a
					// descriptor the connection owns (alone, or behind queued bytes) until the engine stops
					if a.K == "backlog-sendfile" {
						_, _ = nbc.Write(make([]byte, 1<<20))
					}
					if f, err := os.Open(bigFile()); err == nil {
						_, _ = nbc.Sendfile(f, 0)
						_ = f.Close()
					}
				case "overflow":
					// a Write that fails with a hard error (beyond the write-buffer bound): the connection is
					// ended by the failing call itself, in the middle of the history
					_, _ = nbc.Write(make([]byte, 5<<20))
					openAtStop--
				case "write-after-reset":
					// the peer resets, then the application writes: EPIPE / ECONNRESET in the direct write path
					if tc, ok := p.(*net.TCPConn); ok {
						_ = tc.SetLinger(0)
					}
					_ = p.Close()
					for i := 0; i < 3; i++ {
						if _, err := nbc.Write(make([]byte, 1000)); err != nil {
							break
						}
						time.Sleep(200 * time.Microsecond)
					}
					openAtStop--
				case "respawn-on-close":
					nbc.SetSession("respawn")
				case "fardeadline":
					_ = nbc.SetDeadline(time.Now().Add(time.Hour))
				case "serverclose":
					_ = nbc.Close()
					openAtStop--
				}
			case "dial", "dial-refused":
				if core == nil {
					continue
				}
				if helperLn == nil {
					helperLn, _ = net.Listen("tcp", "127.0.0.1:0")
					if helperLn != nil {
						go func(l net.Listener) {
							for {
								p, err := l.Accept()
								if err != nil {
									return
								}
								addPeer(p)
							}
						}(helperLn)
					}
				}
				addr := ""
				if a.K == "dial" && helperLn != nil {
					addr = helperLn.Addr().String()
				} else {
					addr = refusedAddr()
				}
				if err := core.DialAsync("tcp", addr, func(*nbio.Conn, error) {}); err == nil {
					atomic.AddInt64(&dialCalls, 1)
					if a.K == "dial" {
						openAtStop++
					}
				}
			}
		}
		time.Sleep(2 * time.Millisecond)
	} else {
		time.Sleep(time.Duration(c.StopUs) * time.Microsecond)
	}

	// racing activity
	quit := make(chan struct{})
	var rwg sync.WaitGroup
	if c.Storm {
		racing++
		for w := 0; w < 3; w++ {
			rwg.Add(1)
			go func(w int) {
				defer rwg.Done()
				for i := 0; ; i++ {
					select {
					case <-quit:
						return
					default:
					}
					p, err := net.DialTimeout("tcp", addrs[(w+i)%len(addrs)], 200*time.Millisecond)
					if err != nil {
						time.Sleep(200 * time.Microsecond)
						continue
					}
					addPeer(p)
					if i%2 == 0 {
						_, _ = p.Write([]byte("GET / HTTP/1.1\r\nHost: a\r\n\r\n"))
					}
				}
			}(w)
		}
	}
	if c.RaceWrite {
		racing++
		rwg.Add(1)
		go func() {
			defer rwg.Done()
			for i := 0; ; i++ {
				select {
				case <-quit:
					return
				default:
				}
				pmu.Lock()
				var p net.Conn
				if len(peers) > 0 {
					p = peers[i%len(peers)]
				}
				pmu.Unlock()
				if p != nil {
					if i%7 == 6 {
						_ = p.Close()
					} else {
						_ = p.SetWriteDeadline(time.Now().Add(50 * time.Millisecond))
						_, _ = p.Write([]byte("GET / HTTP/1.1\r\nHost: a\r\n\r\n"))
					}
				}
				time.Sleep(100 * time.Microsecond)
			}
		}()
	}
	if racing > 0 {
		time.Sleep(time.Millisecond)
	}

	// Stop
	t0 := time.Now()
	var stopErr error
	returned := vlib.StopEngine(func() { stopErr = stop() }, 10*time.Second)
	took := time.Since(t0)
	o, cl, dc := atomic.LoadInt64(&opens), atomic.LoadInt64(&closes), atomic.LoadInt64(&dialCalls)
	close(quit)
	rwg.Wait()
	if helperLn != nil {
		helperLn.Close()
	}
	// every connection the engine managed must have been closed by Stop: the harness's ends of them
	// see EOF/reset (checked before the harness closes anything itself)
	notClosed := ""
	if returned {
		pmu.Lock()
		ps := append([]net.Conn(nil), peers...)
		pat := append([]time.Time(nil), peerAt...)
		pmu.Unlock()
		deadline := time.Now().Add(1500 * time.Millisecond)
		buf := make([]byte, 65536)
		for i, p := range ps {
			if !pat[i].Before(t0) {
				// connected after Stop was called: once the engine has closed its listener another
				// process may own that port, so this connection is not necessarily the engine's
				continue
			}
			for {
				_ = p.SetReadDeadline(deadline)
				_, err := p.Read(buf)
				if err == nil {
					continue // drain echoed data / responses
				}
				if ne, ok := err.(net.Error); ok && ne.Timeout() {
					notClosed = fmt.Sprintf("peer %d of %d (%v -> %v) is still connected 1.5 s after Stop returned", i, len(ps), p.LocalAddr(), p.RemoteAddr())
				}
				break
			}
			if notClosed != "" {
				break
			}
		}
	}
	pmu.Lock()
	for _, p := range peers {
		_ = p.Close()
	}
	pmu.Unlock()
	if !returned {
		res.Err = fmt.Errorf("Stop/Shutdown did not return within 10 s (opens %d, closes %d, dial calls %d, open connections at Stop about %d); leftover goroutines: %v", o, cl, dc, openAtStop, extra(baseG, nbioGoroutines()))
		return res
	}
	if notClosed != "" {
		res.Err = fmt.Errorf("Stop returned (after %v) but a managed connection was not closed: %s", took, notClosed)
		return res
	}
	if stopErr != nil {
		res.Err = fmt.Errorf("Shutdown with a live context returned %v after %v", stopErr, took)
		return res
	}
	if c.Kind == "core" && cl != o+dc {
		res.Err = fmt.Errorf("when Stop returned, %d close notifications had been delivered for %d open notifications + %d accepted dial calls", cl, o, dc)
		return res
	}
	// settle: goroutines and descriptors back to the baseline
	var eg []string
	var efd []string
	ok := vlib.WaitUntil(2*time.Second, func() bool {
		eg = extra(baseG, nbioGoroutines())
		efd = efd[:0]
		for fd, link := range vlib.OpenFDs() {
			if _, was := baseFD[fd]; !was {
				efd = append(efd, fmt.Sprintf("%d->%s", fd, link))
			}
		}
		return len(eg) == 0 && len(efd) == 0
	})
	if !ok {
		sort.Strings(efd)
		if len(eg) > 0 {
			res.Err = fmt.Errorf("%v after Stop returned (took %v) goroutines of the library are still alive: %v", 2*time.Second, took, eg)
			return res
		}
		res.Err = fmt.Errorf("%v after Stop returned descriptors opened since Start are still open (harness peers closed): %v", 2*time.Second, efd)
		return res
	}
	res.NonTrivial = (openAtStop > 0 && racing > 0) || (c.StopUs >= 0 && c.StopUs <= 3000)
	if c.StopUs >= 0 {
		res.Classes = append(res.Classes, "stop-right-after-start")
	}
	if c.Kind == "http" {
		res.Classes = append(res.Classes, fmt.Sprintf("iomod=%d", c.IOMod))
	}
	if c.Shutdown {
		res.Classes = append(res.Classes, "shutdown-ctx")
	}
	_ = io.EOF
	return res
}

func gen(t *rapid.T) Case {
	c := Case{Kind: rapid.SampledFrom([]string{"core", "core", "http"}).Draw(t, "kind"), Mode: rapid.SampledFrom(vlib.Modes).Draw(t, "mode")}
	c.Async = rapid.IntRange(0, 2).Draw(t, "async") == 0
	c.NPoller = rapid.IntRange(1, 4).Draw(t, "npoller")
	c.NListen = rapid.IntRange(1, 3).Draw(t, "nlisten")
	if c.Kind == "http" {
		c.IOMod = rapid.SampledFrom([]int{nbhttp.IOModNonBlocking, nbhttp.IOModBlocking, nbhttp.IOModMixed}).Draw(t, "iomod")
	}
	c.StopUs = -1
	if rapid.IntRange(0, 3).Draw(t, "early") == 0 {
		c.StopUs = rapid.SampledFrom([]int{0, 0, 10, 100, 500, 3000}).Draw(t, "stopus")
	} else {
		n := rapid.IntRange(0, 8).Draw(t, "nacts")
		for i := 0; i < n; i++ {
			c.Acts = append(c.Acts, Act{K: rapid.SampledFrom([]string{"client", "client-traffic", "client-traffic", "client-close", "addconn", "respawn-on-close", "dial", "dial-refused", "dial-fail-sync", "backlog", "sendfile", "backlog-sendfile", "fardeadline", "serverclose", "overflow", "write-after-reset", "ws", "ws-transfer", "ws-traffic", "ws-transfer-traffic"}).Draw(t, "act")})
		}
	}
	if rapid.IntRange(0, 3).Draw(t, "refuse") == 0 {
		c.RefuseNth = rapid.IntRange(1, 3).Draw(t, "refusenth")
	}
	c.Storm = rapid.IntRange(0, 2).Draw(t, "storm") == 0
	c.RaceWrite = rapid.IntRange(0, 2).Draw(t, "racewrite") == 0
	c.Shutdown = rapid.IntRange(0, 3).Draw(t, "shutdown") == 0
	if c.StopUs < 0 && c.RefuseNth == 0 {
		// rarely: thousands of connections cost thousands of ephemeral ports each time
		if rapid.IntRange(0, 24).Draw(t, "massive") == 0 {
			c.Mass = rapid.SampledFrom([]int{600, 1100, 2100}).Draw(t, "mass")
		}
	}
	if vlib.YieldAvailable {
		c.YieldPerMille = rapid.SampledFrom([]int{0, 0, 20, 100, 300}).Draw(t, "yield")
	}
	return c
}

func TestCheck(t *testing.T) {
	r := vlib.NewRunner(t, "C18")
	defer func() {
		if bigFilePath != "" {
			_ = os.Remove(bigFilePath)
		}
	}()
	_ = bigFile()
	vlib.RunCheck(r, vlib.Check[Case]{Name: "stop", N: r.Pick(1200, 20000), Gen: gen, Run: runCase, Confirm: true, RecordCurrent: true})
	vlib.RunCases(r, "start-failure", startFailureCells(), runStartFailure, true)
	r.Finish()
}

var (
	bigFileOnce sync.Once
	bigFilePath string
)

// bigFile returns the path of a 2 MiB scratch file (created once per process, before any baseline is taken).
func bigFile() string {
	bigFileOnce.Do(func() {
		f, err := os.CreateTemp("", "c18-sendfile-*")
		if err != nil {
			return
		}
		_, _ = f.Write(make([]byte, 2<<20))
		_ = f.Close()
		bigFilePath = f.Name()
	})
	return bigFilePath
}

// StartFailure: an engine that is given several addresses of which a later one cannot be bound (the port is
// taken). Start has to give up - and its clean-up is a Stop of what it had already started: that Stop must
// return and leave no goroutine or descriptor behind, like any other.
type StartFailure struct {
	Kind    string `json:"kind"` // core, http
	Mode    string `json:"mode"`
	IOMod   int    `json:"io_mod"`
	Good    int    `json:"good_addrs"` // addresses that can be bound, listed before the taken one
	TLS     bool   `json:"tls"`        // http: the taken address is among the TLS addresses
	NPoller int    `json:"npoller"`
}

func runStartFailure(c StartFailure) vlib.Result {
	res := vlib.Result{Classes: []string{"start-failure", "kind=" + c.Kind, fmt.Sprintf("iomod=%d", c.IOMod)}}
	vlib.Logs.Take()
	time.Sleep(2 * time.Millisecond)
	runtime.GC()
	baseG := nbioGoroutines()
	taken, err := net.Listen("tcp", "127.0.0.1:0")
	if err != nil {
		return vlib.Fail("harness: listen: %v", err)
	}
	defer taken.Close()
	baseFD := vlib.OpenFDs()
	var addrs []string
	for i := 0; i < c.Good; i++ {
		addrs = append(addrs, "127.0.0.1:0")
	}
	addrs = append(addrs, taken.Addr().String())
	var start func() error
	var stop func()
	switch c.Kind {
	case "core":
		conf := nbio.Config{Network: "tcp", Addrs: addrs, NPoller: c.NPoller}
		vlib.ApplyMode(&conf, c.Mode)
		g := nbio.NewEngine(conf)
		start, stop = g.Start, g.Stop
	default:
		conf := nbhttp.Config{Network: "tcp", NPoller: c.NPoller, IOMod: c.IOMod, MaxBlockingOnline: 2,
			Handler: http.HandlerFunc(func(w http.ResponseWriter, r *http.Request) { _, _ = w.Write([]byte("ok")) })}
		vlib.ApplyHTTPMode(&conf, c.Mode)
		if c.TLS {
			conf.Addrs = addrs[:len(addrs)-1]
			conf.AddrsTLS = addrs[len(addrs)-1:]
			conf.TLSConfig = vlib.ServerTLSConfig()
		} else {
			conf.Addrs = addrs
		}
		e := nbhttp.NewEngine(conf)
		start, stop = e.Start, e.Stop
	}
	var startErr error
	returned := vlib.StopEngine(func() { startErr = start() }, 10*time.Second)
	if !returned {
		res.Err = fmt.Errorf("Start of an engine whose %d. address is taken did not return within 10 s (its clean-up stops what was started before and never comes back); goroutines: %v", len(addrs), extra(baseG, nbioGoroutines()))
		return res
	}
	if startErr == nil {
		// nothing failed after all (the kernel let both bind, e.g. SO_REUSEPORT): stop normally
		res.Classes = append(res.Classes, "start-succeeded (not asserted)")
		vlib.StopEngine(stop, 10*time.Second)
		return res
	}
	var eg, efd []string
	ok := vlib.WaitUntil(2*time.Second, func() bool {
		eg = extra(baseG, nbioGoroutines())
		efd = efd[:0]
		for fd, link := range vlib.OpenFDs() {
			if _, was := baseFD[fd]; !was {
				efd = append(efd, fmt.Sprintf("%d->%s", fd, link))
			}
		}
		return len(eg) == 0 && len(efd) == 0
	})
	if !ok {
		sort.Strings(efd)
		if len(eg) > 0 {
			res.Err = fmt.Errorf("Start returned %v, but 2 s later goroutines of the library are still alive: %v", startErr, eg)
		} else {
			res.Err = fmt.Errorf("Start returned %v, but 2 s later descriptors it opened are still open: %v", startErr, efd)
		}
		return res
	}
	res.NonTrivial = c.Good > 0
	return res
}

func startFailureCells() []StartFailure {
	var out []StartFailure
	for _, good := range []int{0, 1, 2} {
		out = append(out, StartFailure{Kind: "core", Mode: vlib.ModeLT, Good: good, NPoller: 2})
		for _, io := range []int{nbhttp.IOModNonBlocking, nbhttp.IOModBlocking, nbhttp.IOModMixed} {
			for _, tl := range []bool{false, true} {
				out = append(out, StartFailure{Kind: "http", Mode: vlib.ModeLT, IOMod: io, Good: good, TLS: tl, NPoller: 2})
			}
		}
	}
	return out
}
