package c12

import (
	"bytes"
	"fmt"
	"testing"
	"time"

	"verifharness/vlib"

	"github.com/lesismal/nbio/mempool"
	"github.com/lesismal/nbio/nbhttp"
	"github.com/lesismal/nbio/nbhttp/websocket"
	"pgregory.net/rapid"
)

type Msg struct {
	Text bool   `json:"text"`
	Len  int    `json:"len"`
	Kind string `json:"kind"`
	Seed uint32 `json:"seed"`
	// ref->nbio pipeline only:
	FragSizes []int `json:"frag_sizes,omitempty"` // fragment payload sizes (the rest goes in the last frame)
	CtlAt     []int `json:"ctl_at,omitempty"`     // after which fragments a ping/pong is interleaved
	LenEnc    int   `json:"len_enc,omitempty"`
	Compress  bool  `json:"compress,omitempty"`   // this message compressed (ref encoder)
	PingAfter int   `json:"ping_after,omitempty"` // nbio sender: write a ping (1) / pong (2) after this message
}

type Case struct {
	Pipeline     string `json:"pipeline"` // nbio-nbio, ref-nbio
	SenderClient bool   `json:"sender_client"`
	Compress     bool   `json:"compress"`
	Level        int    `json:"level"`
	FrameLimit   int    `json:"frame_limit"`
	Masked       bool   `json:"masked"` // ref encoder: mask frames
	Msgs         []Msg  `json:"msgs"`
	CutMode      int    `json:"cut_mode"` // 0 whole, 1 byte-at-a-time (bounded), 2 chunks of CutSize, 3 explicit cuts
	CutSize      int    `json:"cut_size,omitempty"`
	Cuts         []int  `json:"cuts,omitempty"`
	// Alloc: the engines' BodyAllocator: "" = the default pool, "aligned" = the library's size-aligned allocator,
	// "moving" = the harness's tracking allocator in pointer-moving mode (every growing append hands back a new
	// pointer object and retires the old one, which then reads as poison)
	Alloc string `json:"alloc,omitempty"`
	// FrameHandler: the receiving application also installed OnDataFrame (every data frame is handed over as
	// well, in a buffer of its own); the messages must arrive exactly as without it
	FrameHandler bool `json:"frame_handler,omitempty"`
	// SenderPlain / ReceiverPlain: that endpoint's application called EnableWriteCompression(false) although
	// compression was negotiated: the sender then sends plain frames, the receiver still accepts compressed ones
	SenderPlain   bool `json:"sender_write_compression_off,omitempty"`
	ReceiverPlain bool `json:"receiver_write_compression_off,omitempty"`
}

var frameHandlerOn bool

var inline = func(f func()) { f() }

type got struct {
	op      websocket.MessageType
	payload []byte
}

func newConn(client bool, compress bool, level int, frameLimit int, conn *vlib.FakeConn, sink *[]got, alloc string) (*websocket.Conn, *nbhttp.Engine) {
	conf := nbhttp.Config{ServerExecutor: inline, ClientExecutor: inline, SupportServerOnly: true, MaxWebsocketFramePayloadSize: frameLimit}
	switch alloc {
	case "aligned":
		conf.BodyAllocator = mempool.NewAligned()
	case "moving":
		tr := vlib.NewTracker()
		tr.MovePointer = true
		conf.BodyAllocator = tr
	}
	engine := nbhttp.NewEngine(conf)
	u := websocket.NewUpgrader()
	u.Engine = engine
	u.KeepaliveTime = 0
	u.MessageLengthLimit = 0
	u.EnableCompression(compress)
	_ = u.SetCompressionLevel(level)
	if sink != nil {
		u.OnMessage(func(c *websocket.Conn, mt websocket.MessageType, data []byte) {
			*sink = append(*sink, got{mt, append([]byte(nil), data...)})
		})
		if frameHandlerOn {
			u.OnDataFrame(func(c *websocket.Conn, mt websocket.MessageType, fin bool, data []byte) {
				for i := range data {
					data[i] = 0xEE // the frame buffer is the handler's: scribbling over it must not reach the message
				}
			})
		}
	}
	var c *websocket.Conn
	if client {
		c = websocket.NewClientConn(u, conn, "", compress, false)
	} else {
		c = websocket.NewServerConn(u, conn, "", compress, false)
	}
	c.Execute = func(f func()) bool { f(); return true }
	return c, engine
}

func payloadOf(m Msg) []byte {
	kind := m.Kind
	if m.Text && kind == "random" {
		kind = "utf8"
	}
	return vlib.GenPayload(kind, m.Len, m.Seed)
}

// maxSegment bounds one read: no transport hands the parser more than its read buffer at a time, and the
// library's handling of a partly consumed read is quadratic in the size of that read (negligible for real
// reads, half a minute of memmove for a 3 MiB "read" holding 27 000 frames).
const maxSegment = 256 << 10

func segments(c Case, wire []byte) [][]byte {
	var out [][]byte
	for _, s := range segments0(c, wire) {
		for len(s) > maxSegment {
			out = append(out, s[:maxSegment])
			s = s[maxSegment:]
		}
		out = append(out, s)
	}
	return out
}

func segments0(c Case, wire []byte) [][]byte {
	switch c.CutMode {
	case 1:
		var segs [][]byte
		n := len(wire)
		lim := 3000
		i := 0
		for ; i < n && i < lim; i++ {
			segs = append(segs, wire[i:i+1])
		}
		if i < n {
			segs = append(segs, wire[i:])
		}
		return segs
	case 2:
		var segs [][]byte
		sz := c.CutSize
		if sz <= 0 {
			sz = 1
		}
		if len(wire)/sz > 5000 {
			sz = len(wire)/5000 + 1
		}
		for i := 0; i < len(wire); i += sz {
			e := i + sz
			if e > len(wire) {
				e = len(wire)
			}
			segs = append(segs, wire[i:e])
		}
		return segs
	case 3:
		return vlib.Split(wire, c.Cuts)
	}
	return [][]byte{wire}
}

func runCase(c Case) vlib.Result {
	return vlib.WithWatchdog(60*time.Second, "the WebSocket round trip", func() vlib.Result { return runCaseInner(c) })
}

func runCaseInner(c Case) vlib.Result {
	res := vlib.Result{Classes: []string{"pipeline=" + c.Pipeline}}
	if c.Compress {
		res.Classes = append(res.Classes, fmt.Sprintf("compress-level=%d", c.Level))
	}
	var want []got
	var wire []byte
	nontrivial := c.Compress || c.CutMode != 0
	boundary := map[int]bool{0: true, 1: true, 125: true, 126: true, 127: true, 65535: true, 65536: true, c.FrameLimit: true, c.FrameLimit + 1: true, c.FrameLimit - 1: true, 2 * c.FrameLimit: true}
	for _, m := range c.Msgs {
		if boundary[m.Len] {
			nontrivial = true
			res.Classes = append(res.Classes, fmt.Sprintf("len-class=%d", m.Len))
		}
		if m.Len == 0 {
			res.Classes = append(res.Classes, "empty-message")
		}
		if m.Len > c.FrameLimit || len(m.FragSizes) > 0 {
			nontrivial = true
			res.Classes = append(res.Classes, "fragmented")
		}
	}
	if c.Pipeline == "nbio-nbio" {
		sconn := &vlib.FakeConn{}
		sender, _ := newConn(c.SenderClient, c.Compress, c.Level, c.FrameLimit, sconn, nil, c.Alloc)
		if c.SenderPlain {
			sender.EnableWriteCompression(false)
			res.Classes = append(res.Classes, "sender switched write compression off")
		}
		for i, m := range c.Msgs {
			p := payloadOf(m)
			mt := websocket.BinaryMessage
			if m.Text {
				mt = websocket.TextMessage
			}
			if err := sender.WriteMessage(mt, p); err != nil {
				res.Err = fmt.Errorf("WriteMessage %d (len %d) failed: %v", i, len(p), err)
				return res
			}
			want = append(want, got{mt, p})
			switch m.PingAfter {
			case 1:
				_ = sender.WriteMessage(websocket.PingMessage, []byte("pingdata"))
			case 2:
				_ = sender.WriteMessage(websocket.PongMessage, []byte("pongdata"))
			}
		}
		wire = sconn.Bytes()
		// wire checks with the reference decoder
		frames, rest, err := vlib.DecodeWSFrames(wire)
		if err != nil || len(rest) != 0 {
			res.Err = fmt.Errorf("sender wire does not decode with the reference decoder: err=%v, %d undecoded bytes", err, len(rest))
			return res
		}
		mi := 0
		var acc []byte
		inMsg := false
		compressedMsg := false
		for fi, f := range frames {
			if f.Masked != c.SenderClient {
				res.Err = fmt.Errorf("frame %d: mask bit %v but sender is client=%v", fi, f.Masked, c.SenderClient)
				return res
			}
			if f.R2 || f.R3 {
				res.Err = fmt.Errorf("frame %d: RSV2/3 set by the sender", fi)
				return res
			}
			if f.Op >= 8 {
				if !f.Fin || len(f.Payload) > 125 || f.R1 {
					res.Err = fmt.Errorf("frame %d: malformed control frame from the sender", fi)
					return res
				}
				continue
			}
			if len(f.Payload) > c.FrameLimit {
				res.Err = fmt.Errorf("frame %d: payload %d exceeds MaxWebsocketFramePayloadSize %d", fi, len(f.Payload), c.FrameLimit)
				return res
			}
			if !inMsg {
				if mi >= len(want) {
					res.Err = fmt.Errorf("frame %d: more data messages on the wire than were written", fi)
					return res
				}
				if f.Op != int(want[mi].op) {
					res.Err = fmt.Errorf("frame %d: first frame of message %d has opcode %d, want %d", fi, mi, f.Op, want[mi].op)
					return res
				}
				compressedMsg = f.R1
				if f.R1 != (c.Compress && !c.SenderPlain) {
					res.Err = fmt.Errorf("frame %d: RSV1=%v on the first frame but compression negotiated=%v, switched off by the sending application=%v", fi, f.R1, c.Compress, c.SenderPlain)
					return res
				}
				inMsg = true
				acc = acc[:0]
			} else {
				if f.Op != vlib.OpCont {
					res.Err = fmt.Errorf("frame %d: opcode %d inside a fragmented message (want continuation)", fi, f.Op)
					return res
				}
				if f.R1 {
					res.Err = fmt.Errorf("frame %d: RSV1 on a continuation frame", fi)
					return res
				}
			}
			acc = append(acc, f.Payload...)
			if f.Fin {
				payload := append([]byte(nil), acc...)
				if compressedMsg {
					out, err := vlib.Inflate(payload, 0)
					if err != nil {
						res.Err = fmt.Errorf("message %d: wire payload does not inflate with compress/flate: %v", mi, err)
						return res
					}
					payload = out
				}
				if !bytes.Equal(payload, want[mi].payload) {
					res.Err = fmt.Errorf("message %d: wire payload (%d bytes) differs from the written message (%d bytes)", mi, len(payload), len(want[mi].payload))
					return res
				}
				mi++
				inMsg = false
			}
		}
		if mi != len(want) || inMsg {
			res.Err = fmt.Errorf("wire carries %d complete data messages, %d were written", mi, len(want))
			return res
		}
	} else {
		// reference encoder
		key := uint32(0x12345678)
		for _, m := range c.Msgs {
			p := payloadOf(m)
			op := vlib.OpBin
			if m.Text {
				op = vlib.OpText
			}
			want = append(want, got{websocket.MessageType(op), p})
			data := p
			compressed := c.Compress && m.Compress
			if compressed {
				data = vlib.Deflate(p, 6)
			}
			// fragments
			var parts [][]byte
			rest := data
			for _, fs := range m.FragSizes {
				if fs > len(rest) {
					fs = len(rest)
				}
				parts = append(parts, rest[:fs])
				rest = rest[fs:]
			}
			parts = append(parts, rest)
			ctl := map[int]bool{}
			for _, a := range m.CtlAt {
				ctl[a] = true
			}
			for i, part := range parts {
				f := vlib.WSFrame{Fin: i == len(parts)-1, Op: vlib.OpCont, Masked: c.Masked, Key: key, Payload: part, LenEnc: m.LenEnc}
				key = key*1664525 + 1013904223
				if i == 0 {
					f.Op = op
					f.R1 = compressed
				}
				wire = append(wire, f.Encode()...)
				if ctl[i] && i != len(parts)-1 {
					pf := vlib.WSFrame{Fin: true, Op: vlib.OpPong, Masked: c.Masked, Key: key, Payload: []byte("between")}
					wire = append(wire, pf.Encode()...)
					res.Classes = append(res.Classes, "control-between-fragments")
				}
			}
			if m.LenEnc != 0 {
				res.Classes = append(res.Classes, "non-minimal-length-encoding")
			}
		}
	}

	// receiver
	var gotMsgs []got
	rconn := &vlib.FakeConn{}
	frameHandlerOn = c.FrameHandler
	if c.FrameHandler {
		res.Classes = append(res.Classes, "receiver with OnMessage and OnDataFrame")
	}
	receiver, _ := newConn(!c.SenderClient, c.Compress, c.Level, c.FrameLimit, rconn, &gotMsgs, c.Alloc)
	if c.ReceiverPlain {
		receiver.EnableWriteCompression(false)
		res.Classes = append(res.Classes, "receiver switched write compression off")
	}
	for si, s := range segments(c, wire) {
		cp := append([]byte(nil), s...)
		if err := receiver.Parse(cp); err != nil {
			res.Err = fmt.Errorf("receiver rejected valid traffic at segment %d: %v (delivered %d of %d messages)", si, err, len(gotMsgs), len(want))
			return res
		}
		for i := range cp {
			cp[i] = 0xEE
		}
	}
	if pl := vlib.Panics(vlib.Logs.Take()); len(pl) > 0 {
		res.Err = fmt.Errorf("recovered panic logged by the library: %s", pl[0])
		return res
	}
	if rconn.IsClosed() {
		res.Err = fmt.Errorf("receiver closed the connection on valid traffic (delivered %d of %d messages)", len(gotMsgs), len(want))
		return res
	}
	if len(gotMsgs) != len(want) {
		lens := []int{}
		for _, w := range want {
			lens = append(lens, len(w.payload))
		}
		res.Err = fmt.Errorf("%d messages sent (lengths %v), %d delivered", len(want), lens, len(gotMsgs))
		return res
	}
	for i := range want {
		if gotMsgs[i].op != want[i].op {
			res.Err = fmt.Errorf("message %d: type %d delivered, %d sent", i, gotMsgs[i].op, want[i].op)
			return res
		}
		if !bytes.Equal(gotMsgs[i].payload, want[i].payload) {
			j := 0
			for j < len(gotMsgs[i].payload) && j < len(want[i].payload) && gotMsgs[i].payload[j] == want[i].payload[j] {
				j++
			}
			res.Err = fmt.Errorf("message %d: payload differs (sent %d bytes, delivered %d bytes, first difference at %d)", i, len(want[i].payload), len(gotMsgs[i].payload), j)
			return res
		}
	}
	res.NonTrivial = nontrivial
	return res
}

func genLen(t *rapid.T, frameLimit int, big int) int {
	switch rapid.IntRange(0, 13).Draw(t, "lencls") {
	case 0:
		return 0
	case 1:
		return 1
	case 2:
		return rapid.SampledFrom([]int{125, 126, 127}).Draw(t, "l7")
	case 3:
		return rapid.SampledFrom([]int{65535, 65536, 65537}).Draw(t, "l16")
	case 4, 5:
		k := rapid.IntRange(1, 3).Draw(t, "mult")
		v := k*frameLimit + rapid.IntRange(-1, 1).Draw(t, "fd")
		if v > 200000 {
			v = frameLimit + 1
		}
		if v < 0 {
			v = 0
		}
		return v
	case 6:
		return rapid.IntRange(100000, big).Draw(t, "big")
	case 7, 8:
		return rapid.IntRange(128, 5000).Draw(t, "mid")
	default:
		return rapid.IntRange(2, 124).Draw(t, "small")
	}
}

func gen(big int) func(t *rapid.T) Case {
	return func(t *rapid.T) Case {
		c := Case{Pipeline: rapid.SampledFrom([]string{"nbio-nbio", "nbio-nbio", "ref-nbio"}).Draw(t, "pipeline")}
		c.SenderClient = rapid.Bool().Draw(t, "sender_client")
		c.Compress = rapid.Bool().Draw(t, "compress")
		c.Level = rapid.IntRange(-2, 9).Draw(t, "level")
		c.Alloc = rapid.SampledFrom([]string{"", "", "aligned", "moving"}).Draw(t, "alloc")
		c.FrameHandler = rapid.IntRange(0, 3).Draw(t, "framehandler") == 0
		if c.Compress {
			c.SenderPlain = rapid.IntRange(0, 5).Draw(t, "senderplain") == 0
			c.ReceiverPlain = rapid.IntRange(0, 3).Draw(t, "receiverplain") == 0
		}
		c.FrameLimit = rapid.SampledFrom([]int{1, 2, 125, 126, 1024, 32768}).Draw(t, "framelimit")
		c.Masked = c.SenderClient
		if c.Pipeline == "ref-nbio" && rapid.IntRange(0, 5).Draw(t, "flipmask") == 0 {
			c.Masked = !c.Masked
		}
		n := rapid.IntRange(1, 5).Draw(t, "nmsgs")
		for i := 0; i < n; i++ {
			m := Msg{Text: rapid.Bool().Draw(t, "text"), Seed: uint32(rapid.IntRange(0, 1<<20).Draw(t, "seed"))}
			m.Len = genLen(t, c.FrameLimit, big)
			if c.FrameLimit <= 2 && m.Len > 3000 {
				m.Len = 3000 // a 1-byte frame limit makes one frame per byte; keep it affordable
			}
			if c.Alloc == "aligned" {
				// the size-aligned allocator reallocates on every Append once a buffer is above its largest
				// class (32 KiB): reassembling a message costs frames x length / 2 bytes of copying. Keep that
				// below about 2 GB per message (a cost bound, the statement says nothing about speed)
				for m.Len > 32768 && (m.Len/c.FrameLimit+1)*(m.Len/2) > 2<<30 {
					m.Len /= 2
				}
			}
			if m.Text {
				m.Kind = rapid.SampledFrom([]string{"ascii", "utf8", "pattern"}).Draw(t, "kind")
			} else {
				m.Kind = rapid.SampledFrom([]string{"random", "zeros", "pattern", "ascii"}).Draw(t, "kind")
			}
			if c.Pipeline == "ref-nbio" {
				nf := rapid.IntRange(0, 4).Draw(t, "nfrag")
				for j := 0; j < nf; j++ {
					m.FragSizes = append(m.FragSizes, rapid.SampledFrom([]int{0, 1, 2, 125, 126, 127, 1000, 65535, 65536}).Draw(t, "fragsize"))
					if rapid.IntRange(0, 2).Draw(t, "ctl") == 0 {
						m.CtlAt = append(m.CtlAt, j)
					}
				}
				// non-minimal length encodings are not generated here: RFC 6455 5.2 requires the minimal form,
				// so a receiver may legitimately refuse them (they are an open class of C13)
				m.Compress = rapid.Bool().Draw(t, "msgcompress")
			} else {
				m.PingAfter = rapid.SampledFrom([]int{0, 0, 0, 1, 2}).Draw(t, "pingafter")
			}
			c.Msgs = append(c.Msgs, m)
		}
		c.CutMode = rapid.IntRange(0, 3).Draw(t, "cutmode")
		switch c.CutMode {
		case 2:
			c.CutSize = rapid.SampledFrom([]int{1, 2, 3, 7, 13, 127, 1000, 4096, 65536}).Draw(t, "cutsize")
		case 3:
			k := rapid.IntRange(1, 6).Draw(t, "ncuts")
			for i := 0; i < k; i++ {
				c.Cuts = append(c.Cuts, rapid.IntRange(1, 70000).Draw(t, "cut"))
			}
			sortInts(c.Cuts)
		}
		return c
	}
}

func sortInts(a []int) {
	for i := 1; i < len(a); i++ {
		for j := i; j > 0 && a[j] < a[j-1]; j-- {
			a[j], a[j-1] = a[j-1], a[j]
		}
	}
}

func TestCheck(t *testing.T) {
	r := vlib.NewRunner(t, "C12")
	big := 300000
	if !r.Quick() {
		big = 4 << 20
	}
	vlib.RunCheck(r, vlib.Check[Case]{Name: "roundtrip", N: r.Pick(40000, 600000), Gen: gen(big), Run: runCase})
	vlib.RunCheck(r, vlib.Check[PathCase]{Name: "paths", N: r.Pick(500, 10000), Gen: genPath, Run: runPath, Confirm: true, RecordCurrent: true})
	r.Finish()
}
