package c12

import (
	"bytes"
	"fmt"
	"net"
	"sync"
	"time"

	"verifharness/vlib"

	"github.com/lesismal/nbio/nbhttp"
	"github.com/lesismal/nbio/nbhttp/websocket"
	"pgregory.net/rapid"
)

// End-to-end tier: the round trip through a real server on every upgrade path, plain and TLS, in both
// directions at once: a real client (the reference codec) sends the generated messages, the server's
// message callback must receive each exactly once, in order, with the same type and payload, and echoes it
// with WriteMessage; the client decodes the echoes with the reference codec and compares again.
type PathCase struct {
	Path       string `json:"path"`
	TLS        bool   `json:"tls"`
	Mode       string `json:"mode"`
	Compress   bool   `json:"compress"`
	Level      int    `json:"level"`
	FrameLimit int    `json:"frame_limit"`
	AsyncWrite bool   `json:"async_write"`
	Msgs       []Msg  `json:"msgs"`
	ClientFrag int    `json:"client_frag"` // the client fragments its messages into frames of this many bytes (0 = one frame)
}

func runPath(c PathCase) vlib.Result {
	res := vlib.Result{Classes: []string{fmt.Sprintf("pathcell=%s/tls=%v", c.Path, c.TLS)}}
	vlib.Logs.Take()
	type rec struct {
		op      int
		payload []byte
	}
	var mu sync.Mutex
	var got []rec
	var echoErr error
	u := websocket.NewUpgrader()
	u.KeepaliveTime = 0
	u.BlockingModAsyncWrite = c.AsyncWrite
	u.EnableCompression(c.Compress)
	if c.Compress {
		_ = u.SetCompressionLevel(c.Level)
	}
	u.OnMessage(func(wc *websocket.Conn, mt websocket.MessageType, data []byte) {
		mu.Lock()
		got = append(got, rec{int(mt), append([]byte(nil), data...)})
		mu.Unlock()
		if err := wc.WriteMessage(mt, data); err != nil {
			mu.Lock()
			if echoErr == nil {
				echoErr = err
			}
			mu.Unlock()
		}
	})
	addr, stop, err := vlib.StartWSServer(c.Path, c.TLS, c.Mode, u, func(conf *nbhttp.Config) { conf.MaxWebsocketFramePayloadSize = c.FrameLimit })
	if err != nil {
		return vlib.Fail("%v", err)
	}
	defer stop()
	conn, cl, err := vlib.DialWS(addr, c.TLS, c.Compress)
	if err != nil {
		res.Err = fmt.Errorf("websocket handshake failed on path %s (tls=%v): %v", c.Path, c.TLS, err)
		return res
	}
	defer conn.Close()
	compress := c.Compress && cl.Compression
	// reader: reassemble the echoes
	type echo struct {
		op      int
		payload []byte
	}
	var emu sync.Mutex
	var echoes []echo
	var wireErr string
	readerDone := make(chan struct{})
	go func() {
		defer close(readerDone)
		var asm []byte
		op, comp, in := 0, false, false
		for {
			_ = conn.SetReadDeadline(time.Now().Add(10 * time.Second))
			f, err := cl.ReadFrame()
			if err != nil {
				return
			}
			if f.Op >= 8 {
				continue
			}
			if f.Masked || f.R2 || f.R3 {
				wireErr = "server frame with mask/RSV2/RSV3 set"
				return
			}
			if len(f.Payload) > c.FrameLimit && c.FrameLimit > 0 {
				wireErr = fmt.Sprintf("server frame payload %d exceeds the frame limit %d", len(f.Payload), c.FrameLimit)
				return
			}
			if !in {
				if f.Op == vlib.OpCont {
					wireErr = "continuation without a start"
					return
				}
				op, comp, in, asm = f.Op, f.R1, true, asm[:0]
			} else if f.Op != vlib.OpCont {
				wireErr = "data frame inside a fragmented message"
				return
			}
			asm = append(asm, f.Payload...)
			if f.Fin {
				in = false
				p := append([]byte(nil), asm...)
				if comp {
					out, err := vlib.Inflate(p, 0)
					if err != nil {
						wireErr = "echo does not inflate: " + err.Error()
						return
					}
					p = out
				}
				emu.Lock()
				echoes = append(echoes, echo{op, p})
				emu.Unlock()
			}
		}
	}()
	var want []rec
	for _, m := range c.Msgs {
		payload := payloadOf(m)
		op := vlib.OpBin
		if m.Text {
			op = vlib.OpText
		}
		want = append(want, rec{op, payload})
		wirePayload := payload
		if compress {
			wirePayload = vlib.Deflate(payload, 6)
		}
		first := true
		for first || len(wirePayload) > 0 {
			k := len(wirePayload)
			if c.ClientFrag > 0 && k > c.ClientFrag {
				k = c.ClientFrag
			}
			f := vlib.WSFrame{Fin: k == len(wirePayload), Op: vlib.OpCont, Payload: wirePayload[:k]}
			if first {
				f.Op, f.R1 = op, compress
			}
			first = false
			wirePayload = wirePayload[k:]
			_ = conn.SetWriteDeadline(time.Now().Add(10 * time.Second))
			if err := cl.WriteFrame(f); err != nil {
				res.Err = fmt.Errorf("path %s (tls=%v): the client could not send (server not reading?): %v", c.Path, c.TLS, err)
				return res
			}
		}
	}
	vlib.WaitProgress(5*time.Second, func() bool {
		emu.Lock()
		defer emu.Unlock()
		return len(echoes) >= len(want) || wireErr != ""
	}, func() int64 { emu.Lock(); defer emu.Unlock(); return int64(len(echoes)) })
	time.Sleep(2 * time.Millisecond)
	_ = conn.(net.Conn).Close()
	<-readerDone
	mu.Lock()
	delivered := append([]rec(nil), got...)
	eerr := echoErr
	mu.Unlock()
	for i := range delivered {
		if i >= len(want) {
			res.Err = fmt.Errorf("path %s (tls=%v): %d messages sent, %d delivered (duplicate?)", c.Path, c.TLS, len(want), len(delivered))
			return res
		}
		if delivered[i].op != want[i].op || !bytes.Equal(delivered[i].payload, want[i].payload) {
			res.Err = fmt.Errorf("path %s (tls=%v): message %d delivered as type %d with %d bytes, sent as type %d with %d bytes (content differs: %v)", c.Path, c.TLS, i, delivered[i].op, len(delivered[i].payload), want[i].op, len(want[i].payload), !bytes.Equal(delivered[i].payload, want[i].payload))
			return res
		}
	}
	if len(delivered) != len(want) {
		res.Err = fmt.Errorf("path %s (tls=%v, compress=%v): %d messages sent, %d delivered", c.Path, c.TLS, compress, len(want), len(delivered))
		return res
	}
	if eerr != nil {
		res.Err = fmt.Errorf("path %s (tls=%v): WriteMessage of an echo failed while the client was reading: %v", c.Path, c.TLS, eerr)
		return res
	}
	if wireErr != "" {
		res.Err = fmt.Errorf("path %s (tls=%v): wire: %s", c.Path, c.TLS, wireErr)
		return res
	}
	if len(echoes) != len(want) {
		res.Err = fmt.Errorf("path %s (tls=%v): %d echoes written by the server, %d complete messages arrived", c.Path, c.TLS, len(want), len(echoes))
		return res
	}
	for i := range echoes {
		if echoes[i].op != want[i].op || !bytes.Equal(echoes[i].payload, want[i].payload) {
			res.Err = fmt.Errorf("path %s (tls=%v): echo %d arrived as type %d with %d bytes, written as type %d with %d bytes", c.Path, c.TLS, i, echoes[i].op, len(echoes[i].payload), want[i].op, len(want[i].payload))
			return res
		}
	}
	res.NonTrivial = len(want) >= 1
	return res
}

func genPath(t *rapid.T) PathCase {
	c := PathCase{Path: rapid.SampledFrom(vlib.WSPaths).Draw(t, "path"), Mode: rapid.SampledFrom(vlib.Modes).Draw(t, "mode")}
	if vlib.WSPathHasTLS(c.Path) {
		c.TLS = rapid.Bool().Draw(t, "tls")
	}
	c.Compress = rapid.Bool().Draw(t, "compress")
	c.Level = rapid.SampledFrom([]int{-2, -1, 1, 6, 9}).Draw(t, "level")
	c.FrameLimit = rapid.SampledFrom([]int{100, 1000, 4096, 32768}).Draw(t, "framelimit")
	c.AsyncWrite = rapid.Bool().Draw(t, "asyncwrite")
	n := rapid.IntRange(1, 6).Draw(t, "nmsgs")
	for i := 0; i < n; i++ {
		m := Msg{Text: rapid.Bool().Draw(t, "text"), Len: genLen(t, c.FrameLimit, 300000), Seed: uint32(rapid.IntRange(0, 1000).Draw(t, "seed"))}
		m.Kind = rapid.SampledFrom([]string{"ascii", "utf8", "random", "zeros", "pattern"}).Draw(t, "kind")
		c.Msgs = append(c.Msgs, m)
	}
	c.ClientFrag = rapid.SampledFrom([]int{0, 0, 1000, 16384, 70000}).Draw(t, "clientfrag")
	return c
}
