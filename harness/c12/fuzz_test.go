package c12

import (
	"testing"

	"verifharness/vlib"
)

// Coverage-guided search over the message/fragmentation/segmentation generator's choices (thorough tier).
func FuzzRoundtrip(f *testing.F) {
	vlib.FuzzGenerated(f, "C12", "roundtrip", gen(300000), runCase)
}
