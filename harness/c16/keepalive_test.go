package c16

import (
	"bufio"
	"fmt"
	"io"
	"net"
	"net/http"
	"sync"
	"time"

	"verifharness/vlib"

	"github.com/lesismal/nbio/nbhttp"
	"github.com/lesismal/nbio/nbhttp/websocket"
	"pgregory.net/rapid"
)

// KACase: idle HTTP keep-alive connections and silent WebSocket connections are closed after the
// configured keep-alive time and not earlier.
type KACase struct {
	Kind   string  `json:"kind"` // http, ws
	Mode   string  `json:"mode"`
	IOMod  int     `json:"io_mod"`
	KAMs   int     `json:"keepalive_ms"`
	Conns  [][]int `json:"conns"` // per connection: gaps (ms) before each exchange
	WSPing bool    `json:"ws_ping,omitempty"`
	// WSKA: the upgrader's own keep-alive setting: "" = same as the engine's, "none" = explicitly 0 (the
	// WebSocket connection must then outlive the HTTP keep-alive time the engine armed at accept),
	// "double" = twice the engine's
	WSKA string `json:"ws_keepalive,omitempty"`
	// HandlerMs: the HTTP handler / WebSocket message callback takes this long; the keep-alive time counts
	// from the end of the exchange (the response, the handled message), not from the arrival of the request
	HandlerMs int `json:"handler_ms,omitempty"`
}

func runKA(c KACase) vlib.Result {
	res := vlib.Result{Classes: []string{"keepalive=" + c.Kind, "mode=" + c.Mode, fmt.Sprintf("iomod=%d", c.IOMod)}}
	ka := time.Duration(c.KAMs) * time.Millisecond
	conf := nbhttp.Config{Network: "tcp", Addrs: []string{"127.0.0.1:0"}, NPoller: 2, KeepaliveTime: ka, IOMod: c.IOMod, SupportServerOnly: true}
	switch c.Mode {
	case vlib.ModeET:
		conf.EpollMod = 0x80000000
	case vlib.ModeOneshot:
		conf.EpollMod = 0x80000000
		conf.EPOLLONESHOT = 0x40000000
	}
	mux := http.NewServeMux()
	hd := time.Duration(c.HandlerMs) * time.Millisecond
	mux.HandleFunc("/", func(w http.ResponseWriter, r *http.Request) { time.Sleep(hd); _, _ = w.Write([]byte("ok")) })
	u := websocket.NewUpgrader()
	u.KeepaliveTime = ka
	httpKA := ka
	if c.Kind == "ws" {
		switch c.WSKA {
		case "none":
			u.KeepaliveTime = 0
		case "double":
			u.KeepaliveTime = 2 * ka
			ka = 2 * ka // the time that governs the upgraded connections
		}
	}
	noKA := c.Kind == "ws" && c.WSKA == "none"
	if c.WSKA != "" && c.Kind == "ws" {
		res.Classes = append(res.Classes, "ws-keepalive="+c.WSKA)
	}
	u.OnMessage(func(c *websocket.Conn, mt websocket.MessageType, data []byte) {
		time.Sleep(hd)
		_ = c.WriteMessage(mt, data)
	})
	mux.HandleFunc("/ws", func(w http.ResponseWriter, r *http.Request) {
		_, _ = u.Upgrade(w, r, nil)
	})
	conf.Handler = mux
	engine := nbhttp.NewEngine(conf)
	u.Engine = engine
	if err := engine.Start(); err != nil {
		return vlib.Fail("harness: http engine start: %v", err)
	}
	defer vlib.StopEngine(engine.Stop, 10*time.Second)
	addr := engine.Addrs[0]
	var wg sync.WaitGroup
	errs := make([]error, len(c.Conns))
	nts := make([]bool, len(c.Conns))
	raced := make([]bool, len(c.Conns)) // an exchange came too close to the pending deadline (slow machine): not asserted
	for ci, gaps := range c.Conns {
		wg.Add(1)
		go func(ci int, gaps []int) {
			defer wg.Done()
			// the server arms its first deadline when it accepts, which can happen before Dial has returned
			// here: the lower bound is taken before dialing, the upper bound after
			lastSent := time.Now()
			conn, err := net.DialTimeout("tcp", addr, 3*time.Second)
			if err != nil {
				errs[ci] = fmt.Errorf("harness: dial: %v", err)
				return
			}
			defer conn.Close()
			lastAnswered := time.Now()
			br := bufio.NewReader(conn)
			var ws *vlib.WSClient
			if c.Kind == "ws" {
				ws, err = vlib.WSHandshake(conn, "/ws", false)
				if err != nil {
					errs[ci] = fmt.Errorf("harness: ws handshake: %v", err)
					return
				}
				lastAnswered = time.Now()
			}
			for gi, gap := range gaps {
				time.Sleep(time.Duration(gap) * time.Millisecond)
				// the pending deadline was armed somewhere between armLB and lastAnswered
				armLB := lastSent
				if nts[ci] && !(c.Kind == "ws" && c.WSPing) {
					armLB = lastSent.Add(hd)
				}
				if !noKA && time.Since(armLB) > ka-15*time.Millisecond-hd {
					// too late to count as a renewal (scheduling delay): stop exchanging, just observe the close
					break
				}
				// an exchange that fails once the earliest possible deadline is near may simply have lost the race
				// against that deadline on a starved machine (the server reads the request after its timer fired)
				lostRace := func() bool {
					if !noKA && !time.Now().Before(armLB.Add(ka-5*time.Millisecond)) {
						raced[ci] = true
						return true
					}
					return false
				}
				sent := time.Now()
				_ = conn.SetDeadline(time.Now().Add(3 * time.Second))
				if c.Kind == "http" {
					if _, err := conn.Write([]byte("GET / HTTP/1.1\r\nHost: a\r\n\r\n")); err != nil {
						if lostRace() {
							return
						}
						errs[ci] = fmt.Errorf("connection %d: request %d could not be sent %v after the previous exchange (keep-alive %v): %v", ci, gi, time.Since(lastAnswered), ka, err)
						return
					}
					resp, err := http.ReadResponse(br, nil)
					if err != nil {
						if lostRace() {
							return
						}
						errs[ci] = fmt.Errorf("connection %d: request %d sent %v after the previous exchange (keep-alive %v) got no response: %v (closed early?)", ci, gi, sent.Sub(lastAnswered), ka, err)
						return
					}
					_, _ = io.Copy(io.Discard, resp.Body)
				} else {
					op := vlib.OpText
					if c.WSPing {
						op = vlib.OpPing
					}
					if err := ws.WriteMessage(op, []byte("hi")); err != nil {
						if lostRace() {
							return
						}
						errs[ci] = fmt.Errorf("connection %d: message %d could not be sent %v after the previous one (keep-alive %v): %v", ci, gi, time.Since(lastAnswered), ka, err)
						return
					}
					if _, err := ws.ReadFrame(); err != nil {
						if lostRace() {
							return
						}
						errs[ci] = fmt.Errorf("connection %d: message %d sent %v after the previous one (keep-alive %v) got no answer: %v (closed early?)", ci, gi, sent.Sub(lastAnswered), ka, err)
						return
					}
				}
				lastSent, lastAnswered = sent, time.Now()
				if !noKA && lastAnswered.After(armLB.Add(ka-10*time.Millisecond)) {
					// the answer came back within 10 ms of the earliest moment the previous deadline can fire: the
					// server may not have renewed it in time (it renews after the response) - nothing to assert
					raced[ci] = true
					return
				}
				nts[ci] = true
			}
			if noKA {
				// keep-alive disabled for the upgraded connection: it must stay open well beyond the HTTP
				// keep-alive time that was armed when the connection was accepted, silent or not
				_ = conn.SetDeadline(time.Now().Add(2*httpKA + 100*time.Millisecond))
				_, rerr := ws.ReadFrame()
				if ne, ok := rerr.(net.Error); !ok || !ne.Timeout() {
					errs[ci] = fmt.Errorf("connection %d: WebSocket connection with keep-alive disabled (upgrader KeepaliveTime 0) was closed %v after its last exchange: %v (HTTP keep-alive time %v: a stale timer?)", ci, time.Since(lastAnswered), rerr, httpKA)
					return
				}
				_ = conn.SetDeadline(time.Now().Add(3 * time.Second))
				if err := ws.WriteMessage(vlib.OpText, []byte("still here")); err != nil {
					errs[ci] = fmt.Errorf("connection %d: WebSocket connection with keep-alive disabled could not send after a silence of %v: %v", ci, time.Since(lastAnswered), err)
					return
				}
				if _, err := ws.ReadFrame(); err != nil {
					errs[ci] = fmt.Errorf("connection %d: WebSocket connection with keep-alive disabled got no echo after a silence of %v: %v", ci, time.Since(lastAnswered), err)
					return
				}
				nts[ci] = true
				return
			}
			// now stay silent: the server must close after the keep-alive time, not earlier
			_ = conn.SetDeadline(time.Now().Add(ka + 3*time.Second))
			var rerr error
			if ws != nil {
				_, rerr = ws.ReadFrame()
			} else {
				_, rerr = br.ReadByte()
			}
			closedAt := time.Now()
			if ne, ok := rerr.(net.Error); ok && ne.Timeout() {
				errs[ci] = fmt.Errorf("connection %d: still open %v after the last exchange; keep-alive time is %v", ci, time.Since(lastAnswered), ka)
				return
			}
			if rerr == nil {
				errs[ci] = fmt.Errorf("connection %d: unexpected data while idle", ci)
				return
			}
			// the deadline was armed when the last exchange ended, i.e. not before its handler had run
			armedNotBefore := lastSent
			if nts[ci] && !(c.Kind == "ws" && c.WSPing) {
				armedNotBefore = lastSent.Add(hd)
			}
			if closedAt.Before(armedNotBefore.Add(ka)) {
				errs[ci] = fmt.Errorf("connection %d: closed %v after the last exchange began (its handler took %v), EARLIER than the keep-alive time %v after the end of that exchange", ci, closedAt.Sub(lastSent), hd, ka)
				return
			}
			if closedAt.After(lastAnswered.Add(ka + tol)) {
				errs[ci] = fmt.Errorf("connection %d: closed %v after the last exchange; keep-alive time %v (tolerance %v)", ci, closedAt.Sub(lastAnswered), ka, tol)
				return
			}
		}(ci, gaps)
	}
	wg.Wait()
	for ci, e := range errs {
		if e != nil {
			res.Err = e
			return res
		}
		if nts[ci] {
			res.NonTrivial = true
		}
		if raced[ci] {
			res.Classes = append(res.Classes, "an exchange raced the pending deadline (slow machine; connection not asserted)")
		}
	}
	return res
}

func genKA(t *rapid.T) KACase {
	c := KACase{Kind: rapid.SampledFrom([]string{"http", "ws"}).Draw(t, "kind"), Mode: rapid.SampledFrom(vlib.Modes).Draw(t, "mode")}
	c.IOMod = rapid.SampledFrom([]int{nbhttp.IOModNonBlocking, nbhttp.IOModNonBlocking, nbhttp.IOModBlocking}).Draw(t, "iomod")
	c.KAMs = rapid.SampledFrom([]int{100, 150, 200, 300}).Draw(t, "ka")
	c.WSPing = rapid.Bool().Draw(t, "wsping")
	c.HandlerMs = rapid.SampledFrom([]int{0, 0, 40, 90}).Draw(t, "handlerms")
	if c.KAMs < c.HandlerMs+60 {
		c.HandlerMs = 0
	}
	if c.Kind == "ws" {
		c.WSKA = rapid.SampledFrom([]string{"", "none", "double"}).Draw(t, "wska")
	}
	n := rapid.IntRange(4, 12).Draw(t, "nconns")
	for i := 0; i < n; i++ {
		var gaps []int
		k := rapid.IntRange(0, 5).Draw(t, "nexchanges")
		for j := 0; j < k; j++ {
			// renewals well inside the keep-alive time (at most KA-40 ms)
			// ... and early enough for the handler to finish before the pending deadline: what happens to a
			// connection whose handler outlives the deadline armed by the previous exchange is not part of the
			// statement (the library closes it in the middle of the handler; recorded in DESIGN.md, not asserted)
			gaps = append(gaps, rapid.IntRange(0, c.KAMs-40-c.HandlerMs).Draw(t, "gap"))
		}
		c.Conns = append(c.Conns, gaps)
	}
	return c
}
