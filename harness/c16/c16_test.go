package c16

import (
	"context"
	"errors"
	"fmt"
	"net"
	"sync"
	"syscall"
	"testing"
	"time"

	"verifharness/vlib"

	"github.com/lesismal/nbio"
	"pgregory.net/rapid"
)

type Op struct {
	AtMs int    `json:"at_ms"`
	K    string `json:"k"` // setr, setw, setrw, clearr, clearw, clearrw, smallwrite, bigwrite, peertraffic, close
	DMs  int    `json:"d_ms,omitempty"`
}

type Case struct {
	Mode      string `json:"mode"`
	Histories [][]Op `json:"histories"`
	// DialBirth: every second connection is not added with AddConn but dialed by the engine with
	// DialAsyncTimeout (2 s); once established it is a connection like any other and its deadlines close it
	// with their own errors
	DialBirth bool `json:"dial_birth,omitempty"`
}

// dialPair brings a connection to the engine through DialAsyncTimeout (small buffers on both ends, like the
// socket pairs of the other connections); inside runs in the dial callback.
func dialPair(g *nbio.Engine, inside func(*nbio.Conn)) (*nbio.Conn, net.Conn, error) {
	lc := net.ListenConfig{Control: func(network, address string, rc syscall.RawConn) error {
		return rc.Control(func(fd uintptr) { _ = syscall.SetsockoptInt(int(fd), syscall.SOL_SOCKET, syscall.SO_RCVBUF, 4096) })
	}}
	ln, err := lc.Listen(context.Background(), "tcp", "127.0.0.1:0")
	if err != nil {
		return nil, nil, err
	}
	defer ln.Close()
	type dres struct {
		c   *nbio.Conn
		err error
	}
	ch := make(chan dres, 1)
	if err := g.DialAsyncTimeout("tcp", ln.Addr().String(), 2*time.Second, func(dc *nbio.Conn, err error) {
		if err == nil {
			if rc, e := dc.SyscallConn(); e == nil {
				_ = rc.Control(func(fd uintptr) { _ = syscall.SetsockoptInt(int(fd), syscall.SOL_SOCKET, syscall.SO_SNDBUF, 4096) })
			}
			inside(dc)
		}
		ch <- dres{dc, err}
	}); err != nil {
		return nil, nil, err
	}
	_ = ln.(*net.TCPListener).SetDeadline(time.Now().Add(5 * time.Second))
	peer, err := ln.Accept()
	if err != nil {
		return nil, nil, err
	}
	select {
	case r := <-ch:
		if r.err != nil {
			peer.Close()
			return nil, nil, r.err
		}
		return r.c, peer, nil
	case <-time.After(5 * time.Second):
		peer.Close()
		return nil, nil, fmt.Errorf("dial callback did not run within 5 s")
	}
}

const amb = 5 * time.Millisecond
const tol = time.Second

type issued struct {
	op       Op
	before   time.Time
	after    time.Time
	deadline time.Time // absolute deadline handed to the API
}

type hist struct {
	ops      []Op
	nbc      *nbio.Conn
	peer     net.Conn
	log      []issued
	mu       sync.Mutex
	closedAt time.Time
	closeErr error
	closes   int
	end      time.Time
}

func evaluate(h *hist, idx int) (err error, nontrivial bool, ambiguous bool) {
	var dr, dw time.Time // armed deadlines
	backlog := false
	expectClosed := false
	var expectAt time.Time
	var expectErrs []error
	ownClose := false
	fire := func(upTo time.Time) bool {
		// earliest armed deadline strictly before upTo-amb fires
		var d time.Time
		var errs []error
		if !dr.IsZero() {
			d, errs = dr, []error{nbio.ErrReadTimeout}
		}
		if !dw.IsZero() {
			switch {
			case d.IsZero():
				d, errs = dw, []error{nbio.ErrWriteTimeout}
			case dw.Sub(d) < amb && d.Sub(dw) < amb:
				// practically simultaneous: either timer may win
				errs = append(errs, nbio.ErrWriteTimeout)
				if dw.Before(d) {
					d = dw
				}
			case dw.Before(d):
				d, errs = dw, []error{nbio.ErrWriteTimeout}
			}
		}
		if d.IsZero() {
			return false
		}
		if d.Before(upTo.Add(-amb)) {
			expectClosed, expectAt, expectErrs = true, d, errs
			return true
		}
		if d.Before(upTo.Add(amb)) {
			ambiguous = true
		}
		return false
	}
	h.mu.Lock()
	obsClosed, obsAt := h.closes > 0, h.closedAt
	h.mu.Unlock()
	for _, is := range h.log {
		if fire(is.before) {
			// the model says the deadline passed before this operation was issued. If the connection
			// was in fact still open at that moment the timer is late (loaded machine): within the
			// on-time tolerance that is legal, and whether the late timer or the operation wins is a
			// race the property does not resolve - the history is not asserted further.
			if !(obsClosed && !obsAt.After(is.before)) {
				if is.before.Sub(expectAt) > tol {
					return fmt.Errorf("history %d: deadline at +%v passed but the connection was still open %v later when the next operation was issued", idx, expectAt.Sub(h.log[0].before), is.before.Sub(expectAt)), nontrivial, false
				}
				return nil, false, true
			}
			break
		}
		if ambiguous {
			return nil, false, true
		}
		// also ambiguous if a deadline falls into the call itself
		for _, d := range []time.Time{dr, dw} {
			if !d.IsZero() && d.After(is.before.Add(-amb)) && d.Before(is.after.Add(amb)) {
				return nil, false, true
			}
		}
		switch is.op.K {
		case "setr":
			if !dr.IsZero() {
				nontrivial = true
			}
			dr = is.deadline
		case "setw":
			if !dw.IsZero() {
				nontrivial = true
			}
			dw = is.deadline
		case "setrw":
			if !dr.IsZero() || !dw.IsZero() {
				nontrivial = true
			}
			dr, dw = is.deadline, is.deadline
		case "clearr":
			if !dr.IsZero() {
				nontrivial = true
			}
			dr = time.Time{}
		case "clearw":
			if !dw.IsZero() {
				nontrivial = true
			}
			dw = time.Time{}
		case "clearrw":
			if !dr.IsZero() || !dw.IsZero() {
				nontrivial = true
			}
			dr, dw = time.Time{}, time.Time{}
		case "smallwrite":
			if !backlog {
				if !dw.IsZero() {
					nontrivial = true
				}
				dw = time.Time{} // a write that leaves no backlog clears the write deadline
			}
		case "bigwrite":
			backlog = true
		case "close":
			expectClosed, expectAt, expectErrs, ownClose = true, is.before, []error{nil}, true
		}
		if ownClose {
			break
		}
	}
	if !expectClosed && !ambiguous {
		fire(h.end)
		if ambiguous {
			return nil, false, true
		}
	}
	h.mu.Lock()
	defer h.mu.Unlock()
	if h.closes > 1 {
		return fmt.Errorf("history %d: %d close notifications", idx, h.closes), nontrivial, false
	}
	if !expectClosed {
		if h.closes > 0 {
			return fmt.Errorf("history %d: the connection was closed at +%v with %v although no deadline is armed any more (stale timer?); ops %+v", idx, h.closedAt.Sub(h.log[0].before), h.closeErr, h.ops), nontrivial, false
		}
		return nil, nontrivial, false
	}
	if h.closes == 0 {
		return fmt.Errorf("history %d: expected a close at +%v (%v) but the connection is still open %v later; ops %+v", idx, expectAt.Sub(h.log[0].before), expectErrs, h.end.Sub(expectAt), h.ops), nontrivial, false
	}
	okErr := false
	for _, e := range expectErrs {
		if (e == nil && h.closeErr == nil) || (e != nil && errors.Is(h.closeErr, e)) {
			okErr = true
		}
	}
	if !ownClose && h.closedAt.Before(expectAt) {
		return fmt.Errorf("history %d: closed %v BEFORE the deadline (error %v); ops %+v", idx, expectAt.Sub(h.closedAt), h.closeErr, h.ops), nontrivial, false
	}
	if !okErr {
		return fmt.Errorf("history %d: closed with %v, expected one of %v (deadline at +%v, closed at +%v); ops %+v", idx, h.closeErr, expectErrs, expectAt.Sub(h.log[0].before), h.closedAt.Sub(h.log[0].before), h.ops), nontrivial, false
	}
	if h.closedAt.After(expectAt.Add(tol)) {
		return fmt.Errorf("history %d: closed %v after the deadline (tolerance %v)", idx, h.closedAt.Sub(expectAt), tol), nontrivial, false
	}
	return nil, nontrivial, false
}

func runCase(c Case) vlib.Result {
	res := vlib.Result{Classes: []string{"mode=" + c.Mode}}
	conf := nbio.Config{NPoller: 2}
	vlib.ApplyMode(&conf, c.Mode)
	g := nbio.NewEngine(conf)
	var mu sync.Mutex
	byConn := map[*nbio.Conn]*hist{}
	g.OnClose(func(conn *nbio.Conn, err error) {
		now := time.Now()
		mu.Lock()
		h := byConn[conn]
		mu.Unlock()
		if h != nil {
			h.mu.Lock()
			h.closes++
			if h.closes == 1 {
				h.closedAt, h.closeErr = now, err
			}
			h.mu.Unlock()
		}
	})
	g.OnData(func(*nbio.Conn, []byte) {})
	if err := g.Start(); err != nil {
		return vlib.Fail("harness: engine start: %v", err)
	}
	defer vlib.StopEngine(g.Stop, 10*time.Second)
	var hs []*hist
	for hi, ops := range c.Histories {
		if c.DialBirth && hi%2 == 1 {
			h := &hist{ops: ops}
			nbc, peer, err := dialPair(g, func(dc *nbio.Conn) {
				h.nbc = dc
				mu.Lock()
				byConn[dc] = h
				mu.Unlock()
			})
			if err != nil {
				return vlib.Fail("harness: dial pair: %v", err)
			}
			defer peer.Close()
			h.nbc, h.peer = nbc, peer
			hs = append(hs, h)
			continue
		}
		a, peer, err := vlib.StreamPair("tcp", 4096, 4096)
		if err != nil {
			return vlib.Fail("harness: pair: %v", err)
		}
		defer peer.Close()
		nbc, err := nbio.NBConn(a)
		if err != nil {
			return vlib.Fail("harness: NBConn: %v", err)
		}
		h := &hist{ops: ops, nbc: nbc, peer: peer}
		mu.Lock()
		byConn[nbc] = h
		mu.Unlock()
		if _, err := g.AddConn(nbc); err != nil {
			return vlib.Fail("harness: AddConn: %v", err)
		}
		hs = append(hs, h)
	}
	start := time.Now().Add(5 * time.Millisecond)
	var wg sync.WaitGroup
	maxEnd := 0
	for _, h := range hs {
		last := 0
		for _, op := range h.ops {
			if e := op.AtMs + op.DMs; e > last {
				last = e
			}
		}
		if last > maxEnd {
			maxEnd = last
		}
		wg.Add(1)
		go func(h *hist) {
			defer wg.Done()
			// the peer drains small writes until the first big write
			stuck := false
			go func() {
				buf := make([]byte, 4096)
				for {
					_ = h.peer.SetReadDeadline(time.Now().Add(10 * time.Millisecond))
					_, err := h.peer.Read(buf)
					if err != nil {
						if ne, ok := err.(net.Error); ok && ne.Timeout() {
							h.mu.Lock()
							s := stuck
							h.mu.Unlock()
							if s {
								return
							}
							continue
						}
						return
					}
				}
			}()
			for _, op := range h.ops {
				time.Sleep(time.Until(start.Add(time.Duration(op.AtMs) * time.Millisecond)))
				is := issued{op: op, before: time.Now()}
				is.deadline = is.before.Add(time.Duration(op.DMs) * time.Millisecond)
				switch op.K {
				case "setr":
					_ = h.nbc.SetReadDeadline(is.deadline)
				case "setw":
					_ = h.nbc.SetWriteDeadline(is.deadline)
				case "setrw":
					_ = h.nbc.SetDeadline(is.deadline)
				case "clearr":
					_ = h.nbc.SetReadDeadline(time.Time{})
				case "clearw":
					_ = h.nbc.SetWriteDeadline(time.Time{})
				case "clearrw":
					_ = h.nbc.SetDeadline(time.Time{})
				case "smallwrite":
					_, _ = h.nbc.Write([]byte("0123456789"))
				case "bigwrite":
					h.mu.Lock()
					stuck = true
					h.mu.Unlock()
					time.Sleep(12 * time.Millisecond) // the peer's reader has stopped by now
					is.before = time.Now()
					_, _ = h.nbc.Write(make([]byte, 400000))
				case "peertraffic":
					_, _ = h.peer.Write([]byte("ping"))
				case "close":
					_ = h.nbc.Close()
				}
				is.after = time.Now()
				h.log = append(h.log, is)
			}
		}(h)
	}
	wg.Wait()
	// wait until every deadline ever set has passed, plus a margin in which stale timers would fire
	time.Sleep(time.Until(start.Add(time.Duration(maxEnd)*time.Millisecond + 150*time.Millisecond)))
	end := time.Now().Add(-100 * time.Millisecond)
	anyAmb := false
	for i, h := range hs {
		h.end = end
		if len(h.log) == 0 {
			continue
		}
		err, nt, ambiguous := evaluate(h, i)
		if ambiguous {
			anyAmb = true
			continue
		}
		if err != nil {
			res.Err = err
			return res
		}
		if nt {
			res.NonTrivial = true
		}
	}
	if anyAmb {
		res.Classes = append(res.Classes, "some-histories-ambiguous(not asserted)")
	}
	return res
}

func gen(t *rapid.T) Case {
	c := Case{Mode: rapid.SampledFrom(vlib.Modes).Draw(t, "mode")}
	nh := 24
	for i := 0; i < nh; i++ {
		var ops []Op
		n := rapid.IntRange(1, 6).Draw(t, "nops")
		at := 0
		for j := 0; j < n; j++ {
			at += 20 * rapid.IntRange(1, 6).Draw(t, "gap")
			k := rapid.SampledFrom([]string{"setr", "setr", "setw", "setw", "setrw", "clearr", "clearw", "clearrw", "smallwrite", "bigwrite", "peertraffic", "close"}).Draw(t, "op")
			op := Op{AtMs: at, K: k}
			if k == "setr" || k == "setw" || k == "setrw" {
				// (0 and -40: a deadline that has passed already when it is set closes the connection at once)
				op.DMs = rapid.SampledFrom([]int{30, 50, 70, 110, 150, 250, 30, 50, 70, 110, 150, 250, 0, -40}).Draw(t, "d")
			}
			if k == "close" && rapid.IntRange(0, 2).Draw(t, "reallyclose") != 0 {
				op.K = "setr"
				op.DMs = 90
			}
			ops = append(ops, op)
		}
		c.Histories = append(c.Histories, ops)
	}
	c.DialBirth = rapid.Bool().Draw(t, "dialbirth")
	return c
}

func TestCheck(t *testing.T) {
	r := vlib.NewRunner(t, "C16")
	vlib.RunCheck(r, vlib.Check[Case]{Name: "deadlines", N: r.Pick(56, 1200), Gen: gen, Run: runCase, Confirm: true, RecordCurrent: true})
	vlib.RunCheck(r, vlib.Check[KACase]{Name: "keepalive", N: r.Pick(48, 1000), Gen: genKA, Run: runKA, Confirm: true, RecordCurrent: true})
	r.Finish()
}
