package c06

import (
	"bytes"
	"fmt"
	"io"
	"net/http"
	"sort"
	"strings"
	"sync"
	"testing"
	"time"

	"verifharness/vlib"

	"github.com/lesismal/nbio/nbhttp"
	"pgregory.net/rapid"
)

type Case struct {
	Client    bool     `json:"client"`
	Stream    []byte   `json:"stream"`
	Cuts      []int    `json:"cuts,omitempty"`
	AllSingle bool     `json:"all_single_cuts,omitempty"`
	Bounds    []int    `json:"bounds,omitempty"` // message boundaries of the unmutated stream
	BodyAt    []int    `json:"body_at,omitempty"`
	Mutated   bool     `json:"mutated,omitempty"`
	Preview   string   `json:"preview"`
	Classes   []string `json:"classes,omitempty"`
	// MaxBody: the engine's MaxHTTPBodySize (0 = unlimited). Whether a body is within it depends on the
	// message alone, so acceptance and rejection must still be independent of the segmentation. (ReadLimit
	// is not varied here: it bounds what is buffered between reads and legitimately depends on them.)
	MaxBody int `json:"max_body,omitempty"`
}

var inline = func(f func()) { f() }

func newEngine() *nbhttp.Engine { return engineFor(0) }

var (
	engMu   sync.Mutex
	engines = map[int]*nbhttp.Engine{}
)

func engineFor(maxBody int) *nbhttp.Engine {
	engMu.Lock()
	defer engMu.Unlock()
	e := engines[maxBody]
	if e == nil {
		e = nbhttp.NewEngine(nbhttp.Config{ServerExecutor: inline, ClientExecutor: inline, SupportServerOnly: true, MaxHTTPBodySize: maxBody})
		engines[maxBody] = e
	}
	return e
}

type recProc struct {
	ev []string
}

func (p *recProc) OnMethod(_ *nbhttp.Parser, m string) { p.ev = append(p.ev, "method:"+m) }
func (p *recProc) OnURL(_ *nbhttp.Parser, u string) error {
	p.ev = append(p.ev, "url:"+u)
	return nil
}
func (p *recProc) OnProto(_ *nbhttp.Parser, s string) error {
	p.ev = append(p.ev, "proto:"+s)
	if _, _, ok := http.ParseHTTPVersion(s); !ok {
		return fmt.Errorf("malformed HTTP version %q", s)
	}
	return nil
}
func (p *recProc) OnStatus(_ *nbhttp.Parser, code int, status string) {
	p.ev = append(p.ev, fmt.Sprintf("status:%d:%s", code, status))
}
func (p *recProc) OnHeader(_ *nbhttp.Parser, k, v string) { p.ev = append(p.ev, "header:"+k+"="+v) }
func (p *recProc) OnContentLength(_ *nbhttp.Parser, n int) {
	p.ev = append(p.ev, fmt.Sprintf("cl:%d", n))
}
func (p *recProc) OnBody(_ *nbhttp.Parser, d []byte) error {
	p.ev = append(p.ev, "body:"+string(d))
	return nil
}
func (p *recProc) OnTrailerHeader(_ *nbhttp.Parser, k, v string) {
	p.ev = append(p.ev, "trailer:"+k+"="+v)
}
func (p *recProc) OnComplete(_ *nbhttp.Parser)       { p.ev = append(p.ev, "complete") }
func (p *recProc) Close(_ *nbhttp.Parser, err error) {}
func (p *recProc) Clean(_ *nbhttp.Parser)            {}

func feed(p *nbhttp.Parser, segs [][]byte) (err error, panicked any) {
	defer func() {
		if r := recover(); r != nil {
			panicked = r
		}
	}()
	for _, s := range segs {
		// the engine hands the parser a buffer it reuses; give each segment its own copy and scribble
		// over it afterwards so that a parser keeping a reference to the read buffer is noticed
		cp := append([]byte(nil), s...)
		if e := p.Parse(cp); e != nil {
			return e, nil
		}
		for i := range cp {
			cp[i] = 0xEE
		}
	}
	return nil, nil
}

func traceRec(engine *nbhttp.Engine, client bool, segs [][]byte) string {
	rp := &recProc{}
	conn := &vlib.FakeConn{}
	p := nbhttp.NewParser(conn, engine, rp, client, nil)
	err, pn := feed(p, segs)
	p.CloseAndClean(err)
	var sb strings.Builder
	for _, e := range rp.ev {
		sb.WriteString(e)
		sb.WriteByte('\x00')
	}
	if pn != nil {
		fmt.Fprintf(&sb, "PANIC:%v", pn)
	} else if err != nil {
		sb.WriteString("ERR:" + err.Error())
	}
	return sb.String()
}

func hdrString(h http.Header) string {
	keys := make([]string, 0, len(h))
	for k := range h {
		keys = append(keys, k)
	}
	sort.Strings(keys)
	var sb strings.Builder
	for _, k := range keys {
		fmt.Fprintf(&sb, "%q=%q;", k, h[k])
	}
	return sb.String()
}

func traceReal(client bool, segs [][]byte, maxBody int) string {
	var msgs []string
	conn := &vlib.FakeConn{}
	var engine *nbhttp.Engine
	var proc nbhttp.Processor
	if !client {
		engine = nbhttp.NewEngine(nbhttp.Config{ServerExecutor: inline, ClientExecutor: inline, SupportServerOnly: true, MaxHTTPBodySize: maxBody,
			Handler: http.HandlerFunc(func(w http.ResponseWriter, r *http.Request) {
				body, _ := io.ReadAll(r.Body)
				msgs = append(msgs, fmt.Sprintf("REQ %q %q %q host=%q close=%v te=%q hdr={%s} body=%q trailer={%s}",
					r.Method, r.RequestURI, r.Proto, r.Host, r.Close, r.TransferEncoding, hdrString(r.Header), body, hdrString(r.Trailer)))
			})})
		proc = nbhttp.NewServerProcessor()
	} else {
		engine = engineFor(maxBody)
		proc = nbhttp.NewClientProcessor(&nbhttp.ClientConn{Engine: engine}, func(res *http.Response, err error) {
			if err != nil || res == nil {
				msgs = append(msgs, fmt.Sprintf("RESERR %v", err))
				return
			}
			var body []byte
			if res.Body != nil {
				body, _ = io.ReadAll(res.Body)
			}
			msgs = append(msgs, fmt.Sprintf("RES %d %q %q hdr={%s} body=%q trailer={%s}",
				res.StatusCode, res.Status, res.Proto, hdrString(res.Header), body, hdrString(res.Trailer)))
		})
	}
	p := nbhttp.NewParser(conn, engine, proc, client, nil)
	err, pn := feed(p, segs)
	p.CloseAndClean(err)
	s := strings.Join(msgs, "\x00")
	if pn != nil {
		s += fmt.Sprintf("\x00PANIC:%v", pn)
	} else if err != nil {
		s += "\x00ERR:" + err.Error()
	}
	if !client {
		s += fmt.Sprintf("\x00responses=%d closed=%v", bytes.Count(conn.Bytes(), []byte("HTTP/1.")), conn.IsClosed())
	}
	return s
}

func firstDiff(a, b string) string {
	n := len(a)
	if len(b) < n {
		n = len(b)
	}
	i := 0
	for i < n && a[i] == b[i] {
		i++
	}
	lo := i - 60
	if lo < 0 {
		lo = 0
	}
	ha, hb := i+80, i+80
	if ha > len(a) {
		ha = len(a)
	}
	if hb > len(b) {
		hb = len(b)
	}
	return fmt.Sprintf("first difference at trace offset %d: whole=%q segmented=%q", i, a[lo:ha], b[lo:hb])
}

var sharedEngine = newEngine()

func runCase(c Case) vlib.Result {
	return vlib.WithWatchdog(60*time.Second, "the HTTP parser", func() vlib.Result { return runCaseInner(c) })
}

func runCaseInner(c Case) vlib.Result {
	res := vlib.Result{Classes: append([]string{}, c.Classes...)}
	whole := [][]byte{c.Stream}
	eng := engineFor(c.MaxBody)
	wantRec := traceRec(eng, c.Client, whole)
	wantReal := traceReal(c.Client, whole, c.MaxBody)
	if c.MaxBody > 0 {
		res.Classes = append(res.Classes, "max-body-size-configured")
	}
	if c.Client {
		res.Classes = append(res.Classes, "side=client")
	} else {
		res.Classes = append(res.Classes, "side=server")
	}
	if strings.Contains(wantRec, "ERR:") {
		res.Classes = append(res.Classes, "whole-feed-rejected")
	} else {
		res.Classes = append(res.Classes, "whole-feed-accepted")
	}
	check := func(cuts []int) error {
		segs := vlib.Split(c.Stream, cuts)
		if got := traceRec(eng, c.Client, segs); got != wantRec {
			return fmt.Errorf("recording Processor: trace depends on segmentation (cuts %v of %d bytes): %s", cuts, len(c.Stream), firstDiff(wantRec, got))
		}
		if got := traceReal(c.Client, segs, c.MaxBody); got != wantReal {
			return fmt.Errorf("real Processor: delivered messages depend on segmentation (cuts %v of %d bytes): %s", cuts, len(c.Stream), firstDiff(wantReal, got))
		}
		return nil
	}
	if pl := vlib.Panics(vlib.Logs.Take()); len(pl) > 0 {
		res.Classes = append(res.Classes, "recovered-panic-logged(C08 subject)")
	}
	if c.AllSingle {
		res.Classes = append(res.Classes, "seg=every-single-cut")
		for i := 1; i < len(c.Stream); i++ {
			if err := check([]int{i}); err != nil {
				res.Err = err
				return res
			}
		}
		res.NonTrivial = len(c.Stream) > 2
		return res
	}
	if err := check(c.Cuts); err != nil {
		res.Err = err
		return res
	}
	isBound := map[int]bool{}
	for _, b := range c.Bounds {
		isBound[b] = true
	}
	for _, cut := range c.Cuts {
		if cut <= 0 || cut >= len(c.Stream) {
			continue
		}
		if !isBound[cut] || c.Mutated {
			res.NonTrivial = true
		}
		switch {
		case c.Stream[cut-1] == '\r' && c.Stream[cut] == '\n':
			res.Classes = append(res.Classes, "cut:between-CR-LF")
		case c.Stream[cut] == '\r':
			res.Classes = append(res.Classes, "cut:before-CR")
		case c.Stream[cut-1] == '\n':
			res.Classes = append(res.Classes, "cut:after-LF")
		default:
			res.Classes = append(res.Classes, "cut:mid-line-or-body")
		}
	}
	if !c.Mutated {
		for _, cut := range c.Cuts {
			for i, b := range c.Bounds {
				start := 0
				if i > 0 {
					start = c.Bounds[i-1]
				}
				if cut > start && cut < b {
					if i < len(c.BodyAt) && cut > c.BodyAt[i] {
						res.Classes = append(res.Classes, "cut-in:body")
					} else {
						res.Classes = append(res.Classes, "cut-in:head")
					}
				}
			}
		}
	}
	res.Classes = dedupe(res.Classes)
	return res
}

func dedupe(in []string) []string {
	seen := map[string]bool{}
	var out []string
	for _, s := range in {
		if !seen[s] {
			seen[s] = true
			out = append(out, s)
		}
	}
	return out
}

func gen(t *rapid.T) Case {
	c := Case{Client: rapid.IntRange(0, 2).Draw(t, "client") == 0}
	big := rapid.IntRange(0, 40).Draw(t, "big") == 0
	stream, infos := vlib.GenStream(t, vlib.HTTPOpts{Client: c.Client, MaxMsg: 4, Big: big})
	for _, mi := range infos {
		c.Bounds = append(c.Bounds, mi.End)
		c.BodyAt = append(c.BodyAt, mi.BodyStart)
		c.Classes = append(c.Classes, mi.Classes...)
	}
	if len(infos) > 1 {
		c.Classes = append(c.Classes, "pipelined")
	}
	if rapid.IntRange(0, 3).Draw(t, "mutate") == 0 {
		var mc []string
		stream, mc = vlib.Mutate(t, stream)
		c.Mutated = true
		c.Classes = append(c.Classes, mc...)
		c.Classes = append(c.Classes, "mutated")
	}
	if len(stream) == 0 {
		stream = []byte("G")
	}
	c.Stream = stream
	c.MaxBody = rapid.SampledFrom([]int{0, 0, 0, 1, 16, 64, 1000}).Draw(t, "maxbody")
	if len(stream) <= 512 && rapid.IntRange(0, 9).Draw(t, "allsingle") == 0 {
		c.AllSingle = true
	} else {
		inter := vlib.InterestingOffsets(stream)
		inter = append(inter, c.BodyAt...)
		c.Cuts = vlib.GenCuts(t, len(stream), inter)
	}
	c.Classes = dedupe(c.Classes)
	c.Preview = vlib.Preview(stream, 240)
	return c
}

func TestCheck(t *testing.T) {
	r := vlib.NewRunner(t, "C06")
	vlib.RunCheck(r, vlib.Check[Case]{Name: "segmentation", N: r.Pick(100000, 3000000), Gen: gen, Run: runCase})
	r.Finish()
}
