package c06

import (
	"testing"

	"verifharness/vlib"
)

// FuzzSegmentation: coverage-guided bytes + segmentation; oracle = trace(segmented) == trace(one piece).
func FuzzSegmentation(f *testing.F) {
	seeds := []string{
		"GET / HTTP/1.1\r\nHost: a\r\n\r\n",
		"POST /echo HTTP/1.1\r\nHost : localhost:8080  \r\n User-Agent :  x \t\r\nContent-Length: 5 \r\n\r\nhelloGET /2 HTTP/1.0\r\n\r\n",
		"POST / HTTP/1.1\r\nHost: a\r\nTransfer-Encoding: chunked\r\nTrailer: Md5,Size\r\n\r\n4;e=1\r\nbody\r\n000\r\n  Md5 : 84 1a \r\n Size: 4  \r\n\r\nGET / HTTP/1.1\r\n\r\n",
		"HTTP/1.1 200 OK\r\nContent-Length: 3\r\n\r\nabcHTTP/1.1 404 Not Found\r\nTransfer-Encoding: chunked\r\n\r\n3\r\nabc\r\n0\r\n\r\n",
	}
	for i, s := range seeds {
		f.Add([]byte(s), uint32(i*5+1), i == 3)
		f.Add([]byte(s), uint32(i*5+2), i == 3)
		f.Add([]byte(s), uint32(i*5+3), i == 3)
	}
	f.Fuzz(func(t *testing.T, data []byte, seed uint32, client bool) {
		if len(data) < 2 || len(data) > 1<<15 {
			return
		}
		c := Case{Client: client, Stream: data, Cuts: vlib.CutsFromSeed(len(data), seed), Mutated: true, Preview: vlib.Preview(data, 200),
			MaxBody: []int{0, 0, 16, 64}[int(seed>>8)%4]}
		if res := runCase(c); res.Err != nil {
			p := vlib.FuzzFail("C06", "segmentation", c, res.Err.Error())
			t.Fatalf("%v (replay %s)", res.Err, p)
		}
	})
}
