package c09

import (
	"testing"

	"verifharness/vlib"
)

// Coverage-guided search over the handler-program generator's choices (thorough tier).
func FuzzFraming(f *testing.F) {
	vlib.FuzzGenerated(f, "C09", "framing", Gen, runCase)
}
