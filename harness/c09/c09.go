package c09

import (
	"bytes"
	"fmt"
	"io"
	"net/http"
	"reflect"
	"strconv"
	"strings"

	"verifharness/vlib"

	"github.com/lesismal/nbio/mempool"
	"github.com/lesismal/nbio/nbhttp"
	"pgregory.net/rapid"
)

type Op struct {
	K     string `json:"k"` // set, add, cl, trailerdecl, writeheader, write, writestring, flush, readfrom, settrailer
	Key   string `json:"key,omitempty"`
	Val   string `json:"val,omitempty"`
	N     int    `json:"n,omitempty"`     // size or status code
	Rel   bool   `json:"rel,omitempty"`   // size is relative to the 64 KiB threshold of the internal buffers
	Delta int    `json:"delta,omitempty"` // threshold + delta
	Fill  bool   `json:"fill,omitempty"`  // write whatever is missing to reach the explicit Content-Length
}

type Case struct {
	Proto10 bool `json:"http10"`
	Close   bool `json:"close"`      // Connection: close (1.1) / absence of keep-alive (1.0)
	KeepAl  bool `json:"keep_alive"` // Connection: keep-alive on 1.0
	Post    bool `json:"post"`
	Ops     []Op `json:"ops"`
	FailAt  int  `json:"fail_write_at,omitempty"` // for C11 reuse: the k-th conn.Write fails
}

var inline = func(f func()) { f() }

var Tracker = vlib.NewTracker()

func init() {
	mempool.DefaultMemPool = Tracker
}

func pattern(op, n int) []byte {
	b := make([]byte, n)
	for i := range b {
		b[i] = byte('a' + (op*7+i+(i>>9))%26)
	}
	if n > 0 {
		b[0] = byte('A' + op%26)
	}
	return b
}

func bufLens(res http.ResponseWriter) (int, bool) {
	v := reflect.ValueOf(res)
	if v.Kind() != reflect.Ptr {
		return 0, false
	}
	v = v.Elem()
	total := 0
	for _, name := range []string{"buffer", "bodyBuffer"} {
		f := v.FieldByName(name)
		if !f.IsValid() || f.Kind() != reflect.Ptr {
			return 0, false
		}
		if !f.IsNil() {
			total += f.Elem().Len()
		}
	}
	return total, true
}

type exec struct {
	status      int
	committed   bool
	body        []byte
	writeErr    error
	badReturn   string
	hdrExpected http.Header
	trailerDecl []string
	trailerVals map[string]string
	explicitCL  int
	bodyOps     int
	classes     map[string]bool
}

// Execute runs the program against the real parser/response writer. Exported for C11.
func Execute(c Case, tracker *vlib.Tracker) (wire []byte, closed bool, ex *exec, panicked any) {
	ex = &exec{status: 200, hdrExpected: http.Header{}, trailerVals: map[string]string{}, explicitCL: -1, classes: map[string]bool{}}
	conn := &vlib.FakeConn{FailAt: c.FailAt}
	handler := http.HandlerFunc(func(w http.ResponseWriter, r *http.Request) {
		for i, op := range c.Ops {
			switch op.K {
			case "set":
				w.Header().Set(op.Key, op.Val)
				ex.hdrExpected.Set(op.Key, op.Val)
			case "add":
				w.Header().Add(op.Key, op.Val)
				ex.hdrExpected.Add(op.Key, op.Val)
			case "cl":
				w.Header().Set("Content-Length", strconv.Itoa(op.N))
				ex.explicitCL = op.N
			case "trailerdecl":
				w.Header().Add("Trailer", op.Key)
				ex.trailerDecl = append(ex.trailerDecl, op.Key)
			case "settrailer":
				w.Header().Set(op.Key, op.Val)
				ex.trailerVals[op.Key] = op.Val
				if ex.committed {
					ex.classes["trailer-set-after-commit"] = true
				}
			case "writeheader":
				w.WriteHeader(op.N)
				if !ex.committed {
					ex.status = op.N
					ex.committed = true
				}
			case "flush":
				w.(http.Flusher).Flush()
				ex.committed = true
				if len(ex.body) > 0 {
					ex.classes["flush-mid-body"] = true
				}
			case "write", "writestring":
				n := op.N
				if op.Fill {
					n = ex.explicitCL - len(ex.body)
					if n < 0 {
						n = 0
					}
				}
				if op.Rel {
					if have, ok := bufLens(w); ok {
						n = 65536 + op.Delta - have
						if !ex.committed {
							// the head is not encoded yet; aim at the body buffer alone
							n = 65536 + op.Delta
						}
						if n < 0 {
							n = 1
						}
						ex.classes["threshold-relative"] = true
					} else {
						n = 65536 + op.Delta
					}
				}
				data := pattern(i, n)
				var wn int
				var err error
				if op.K == "write" {
					wn, err = w.Write(data)
				} else {
					wn, err = io.WriteString(w, string(data))
				}
				ex.committed = true
				if err != nil {
					if ex.writeErr == nil {
						ex.writeErr = err
					}
					continue
				}
				if wn != len(data) && ex.badReturn == "" {
					ex.badReturn = fmt.Sprintf("op %d: %s of %d bytes returned (%d, nil)", i, op.K, len(data), wn)
				}
				ex.body = append(ex.body, data...)
				if n > 0 {
					ex.bodyOps++
				}
			case "readfrom":
				data := pattern(i, op.N)
				lr := &io.LimitedReader{R: bytes.NewReader(append(data, "EXTRA-NOT-TO-BE-SENT"...)), N: int64(op.N)}
				rf, ok := w.(io.ReaderFrom)
				var wn int64
				var err error
				if ok {
					wn, err = rf.ReadFrom(lr)
				} else {
					wn, err = io.Copy(w, lr)
				}
				ex.committed = true
				if err != nil {
					if ex.writeErr == nil {
						ex.writeErr = err
					}
					continue
				}
				if wn != int64(op.N) && ex.badReturn == "" {
					ex.badReturn = fmt.Sprintf("op %d: ReadFrom of %d bytes returned (%d, nil)", i, op.N, wn)
				}
				ex.body = append(ex.body, data...)
				if op.N > 0 {
					ex.bodyOps++
				}
				ex.classes["readfrom"] = true
			}
		}
	})
	engine := nbhttp.NewEngine(nbhttp.Config{ServerExecutor: inline, ClientExecutor: inline, SupportServerOnly: true, Handler: handler, BodyAllocator: tracker})
	p := nbhttp.NewParser(conn, engine, nbhttp.NewServerProcessor(), false, nil)
	defer func() {
		if r := recover(); r != nil {
			panicked = r
		}
		p.CloseAndClean(nil)
		wire = conn.Bytes()
		closed = conn.IsClosed()
	}()
	if err := p.Parse(requestBytes(c)); err != nil {
		panicked = fmt.Sprintf("harness: request rejected: %v", err)
	}
	return
}

func requestBytes(c Case) []byte {
	var sb strings.Builder
	method := "GET"
	if c.Post {
		method = "POST"
	}
	proto := "HTTP/1.1"
	if c.Proto10 {
		proto = "HTTP/1.0"
	}
	fmt.Fprintf(&sb, "%s /x %s\r\nHost: h\r\n", method, proto)
	if c.Proto10 && c.KeepAl {
		sb.WriteString("Connection: keep-alive\r\n")
	} else if !c.Proto10 && c.Close {
		sb.WriteString("Connection: close\r\n")
	}
	if c.Post {
		sb.WriteString("Content-Length: 3\r\n\r\nabc")
	} else {
		sb.WriteString("\r\n")
	}
	return []byte(sb.String())
}

func wantClose(c Case) bool {
	if c.Proto10 {
		return !c.KeepAl
	}
	return c.Close
}

// ---------- generator ----------

var codes = []int{200, 200, 200, 201, 202, 206, 299, 301, 302, 400, 404, 418, 499, 500, 503, 599, 600, 799, 999}

func genSize(t *rapid.T) (n int, rel bool, delta int) {
	switch rapid.IntRange(0, 11).Draw(t, "szcls") {
	case 0:
		return 0, false, 0
	case 1:
		return 1, false, 0
	case 2, 3, 4:
		return rapid.IntRange(2, 300).Draw(t, "small"), false, 0
	case 5:
		return 32768 + rapid.IntRange(-1, 1).Draw(t, "d32"), false, 0
	case 6:
		return 65536 + rapid.IntRange(-2, 2).Draw(t, "d64"), false, 0
	case 7:
		return rapid.IntRange(60000, 70000).Draw(t, "near64"), false, 0
	case 8:
		return rapid.IntRange(100000, 400000).Draw(t, "big"), false, 0
	case 9, 10:
		return 0, true, rapid.IntRange(-2, 2).Draw(t, "delta")
	default:
		return rapid.IntRange(300, 20000).Draw(t, "mid"), false, 0
	}
}

func Gen(t *rapid.T) Case {
	c := Case{Proto10: rapid.IntRange(0, 3).Draw(t, "http10") == 0, Post: rapid.Bool().Draw(t, "post")}
	if c.Proto10 {
		c.KeepAl = rapid.Bool().Draw(t, "keepalive")
	} else {
		c.Close = rapid.IntRange(0, 2).Draw(t, "close") == 0
	}
	// plan body operations first so that an explicit Content-Length can equal the total
	nbody := rapid.IntRange(0, 5).Draw(t, "nbody")
	var bodyOps []Op
	total := 0
	relUsed := false
	for i := 0; i < nbody; i++ {
		kind := rapid.SampledFrom([]string{"write", "write", "write", "writestring", "readfrom"}).Draw(t, "bodykind")
		n, rel, delta := genSize(t)
		if kind == "readfrom" {
			if rel {
				rel, n = false, 65536+delta
			}
			if n > 200000 {
				n = 200000
			}
		}
		if rel {
			relUsed = true
		}
		bodyOps = append(bodyOps, Op{K: kind, N: n, Rel: rel, Delta: delta})
		total += n
	}
	explicitCL := rapid.IntRange(0, 2).Draw(t, "explicitcl") == 0
	if explicitCL && relUsed {
		// the relative sizes are only known at run time: declare a total that is surely larger and
		// let a final write fill the remainder
		for i := range bodyOps {
			if bodyOps[i].Rel {
				total += 65536 + 2
			}
			if bodyOps[i].K == "readfrom" {
				bodyOps[i].K = "write"
			}
		}
		total += rapid.IntRange(0, 3).Draw(t, "fillextra")
		bodyOps = append(bodyOps, Op{K: "write", Fill: true})
	}
	code := 0
	if rapid.IntRange(0, 2).Draw(t, "callwriteheader") == 0 {
		code = rapid.SampledFrom(codes).Draw(t, "code")
		if nbody == 0 && rapid.IntRange(0, 4).Draw(t, "nobodycode") == 0 {
			code = rapid.SampledFrom([]int{204, 304}).Draw(t, "code204")
		}
	}
	trailers := !c.Proto10 && !explicitCL && code != 204 && code != 304 && rapid.IntRange(0, 3).Draw(t, "trailers") == 0
	var ops []Op
	nh := rapid.IntRange(0, 3).Draw(t, "nhdr")
	for i := 0; i < nh; i++ {
		k := "X-H" + strconv.Itoa(rapid.IntRange(0, 3).Draw(t, "hk"))
		ops = append(ops, Op{K: rapid.SampledFrom([]string{"set", "add"}).Draw(t, "hop"), Key: k, Val: "v" + strconv.Itoa(i)})
	}
	if rapid.IntRange(0, 3).Draw(t, "ctype") == 0 {
		ops = append(ops, Op{K: "set", Key: "Content-Type", Val: "application/octet-stream"})
	}
	if explicitCL {
		ops = append(ops, Op{K: "cl", N: total})
	}
	var tnames []string
	if trailers {
		n := rapid.IntRange(1, 2).Draw(t, "ntrailers")
		for i := 0; i < n; i++ {
			name := "X-Trailer-" + strconv.Itoa(i)
			tnames = append(tnames, name)
			ops = append(ops, Op{K: "trailerdecl", Key: name})
			if rapid.Bool().Draw(t, "trailer_before") {
				ops = append(ops, Op{K: "settrailer", Key: name, Val: "early" + strconv.Itoa(i)})
			}
		}
	}
	if code != 0 {
		ops = append(ops, Op{K: "writeheader", N: code})
	}
	for i, bo := range bodyOps {
		if rapid.IntRange(0, 5).Draw(t, "flush") == 0 {
			ops = append(ops, Op{K: "flush"})
		}
		ops = append(ops, bo)
		_ = i
	}
	if rapid.IntRange(0, 6).Draw(t, "flushend") == 0 {
		ops = append(ops, Op{K: "flush"})
	}
	for i, name := range tnames {
		if rapid.Bool().Draw(t, "trailer_after") {
			ops = append(ops, Op{K: "settrailer", Key: name, Val: "late" + strconv.Itoa(i)})
		}
	}
	c.Ops = ops
	return c
}

// Exec is the execution record of a handler program (exported for C11).
type Exec = exec

func (e *exec) BodyLen() int    { return len(e.body) }
func (e *exec) WriteErr() error { return e.writeErr }
func (e *exec) Classes() []string {
	var out []string
	for k := range e.classes {
		out = append(out, k)
	}
	return out
}
