package c09

import (
	"bufio"
	"bytes"
	"fmt"
	"io"
	"net/http"
	"sort"
	"strings"
	"testing"
	"time"

	"verifharness/vlib"
)

func hdrString(h http.Header) string {
	keys := make([]string, 0, len(h))
	for k := range h {
		keys = append(keys, k)
	}
	sort.Strings(keys)
	var sb strings.Builder
	for _, k := range keys {
		fmt.Fprintf(&sb, "%q=%q;", k, h[k])
	}
	return sb.String()
}

func runCase(c Case) vlib.Result {
	return vlib.WithWatchdog(60*time.Second, "the response writer", func() vlib.Result { return runCaseInner(c) })
}

func runCaseInner(c Case) vlib.Result {
	Tracker.Reset()
	res := vlib.Result{}
	wire, closed, ex, pn := Execute(c, Tracker)
	for k := range ex.classes {
		res.Classes = append(res.Classes, k)
	}
	if c.Proto10 {
		res.Classes = append(res.Classes, "req=HTTP/1.0")
	} else {
		res.Classes = append(res.Classes, "req=HTTP/1.1")
	}
	if pn != nil {
		res.Err = fmt.Errorf("handler/response writer panicked: %v", pn)
		return res
	}
	if pl := vlib.Panics(vlib.Logs.Take()); len(pl) > 0 {
		res.Err = fmt.Errorf("recovered panic logged by the library: %s", pl[0])
		return res
	}
	if ex.writeErr != nil {
		res.Err = fmt.Errorf("a body operation failed although the connection accepts everything: %v", ex.writeErr)
		return res
	}
	if ex.badReturn != "" {
		res.Err = fmt.Errorf("successful write reported a wrong length: %s", ex.badReturn)
		return res
	}
	method := "GET"
	if c.Post {
		method = "POST"
	}
	br := bufio.NewReader(bytes.NewReader(wire))
	resp, err := http.ReadResponse(br, &http.Request{Method: method})
	if err != nil {
		res.Err = fmt.Errorf("net/http cannot decode the response head: %v; wire starts %s", err, vlib.Preview(wire, 200))
		return res
	}
	body, err := io.ReadAll(resp.Body)
	if err != nil {
		res.Err = fmt.Errorf("net/http cannot decode the response body: %v (decoded %d of %d bytes; wire %d bytes, starts %s)", err, len(body), len(ex.body), len(wire), vlib.Preview(wire, 300))
		return res
	}
	chunked := len(resp.TransferEncoding) > 0 && resp.TransferEncoding[0] == "chunked"
	closeDelimited := !chunked && resp.ContentLength < 0
	if rest, _ := io.ReadAll(br); len(rest) > 0 && !closeDelimited {
		res.Err = fmt.Errorf("%d leftover bytes after one complete response: %s", len(rest), vlib.Preview(rest, 120))
		return res
	}
	if resp.StatusCode != ex.status {
		res.Err = fmt.Errorf("status: handler set %d, client decodes %d (%q)", ex.status, resp.StatusCode, resp.Status)
		return res
	}
	if !bytes.Equal(body, ex.body) {
		i := 0
		for i < len(body) && i < len(ex.body) && body[i] == ex.body[i] {
			i++
		}
		res.Err = fmt.Errorf("body: handler wrote %d bytes, client decodes %d bytes; first difference at offset %d (decoded %s, written %s)",
			len(ex.body), len(body), i, vlib.Preview(body[i:], 40), vlib.Preview(ex.body[i:], 40))
		return res
	}
	for k, vv := range ex.hdrExpected {
		if fmt.Sprint(resp.Header[k]) != fmt.Sprint(vv) {
			res.Err = fmt.Errorf("header %q: handler set %q, client decodes %q", k, vv, resp.Header[k])
			return res
		}
	}
	// framing consistency
	switch {
	case c.Proto10 && chunked:
		res.Err = fmt.Errorf("chunked response to an HTTP/1.0 request")
		return res
	case ex.explicitCL >= 0 && (chunked || resp.ContentLength != int64(ex.explicitCL)):
		res.Err = fmt.Errorf("handler set Content-Length %d but the response is framed chunked=%v Content-Length=%d", ex.explicitCL, chunked, resp.ContentLength)
		return res
	case !c.Proto10 && ex.explicitCL < 0 && !chunked && ex.status != 204 && ex.status != 304 && len(ex.body) > 0 && resp.ContentLength < 0:
		res.Err = fmt.Errorf("HTTP/1.1 response with a body has neither chunked framing nor a Content-Length")
		return res
	case closeDelimited && !closed:
		res.Err = fmt.Errorf("close-delimited body but the server leaves the connection open")
		return res
	}
	if chunked {
		res.Classes = append(res.Classes, "framing=chunked")
	} else if closeDelimited {
		res.Classes = append(res.Classes, "framing=close-delimited")
	} else {
		res.Classes = append(res.Classes, "framing=content-length")
	}
	// trailers
	if len(ex.trailerDecl) > 0 {
		res.Classes = append(res.Classes, "trailers")
		want := http.Header{}
		for _, k := range ex.trailerDecl {
			if v, ok := ex.trailerVals[k]; ok {
				want.Set(k, v)
			}
		}
		got := http.Header{}
		for k, vv := range resp.Trailer {
			if len(vv) > 0 {
				got[k] = vv
			}
		}
		// a declared trailer whose value was never set may be sent empty or omitted
		for k := range got {
			if _, ok := want[k]; !ok && len(got[k]) == 1 && got[k][0] == "" {
				delete(got, k)
			}
		}
		if hdrString(want) != hdrString(got) {
			res.Err = fmt.Errorf("trailers: handler's final values {%s}, client decodes {%s}", hdrString(want), hdrString(got))
			return res
		}
	}
	if closeDelimited {
		// the server had to give up keep-alive to delimit the body (HTTP/1.0, length unknown at flush time)
		res.Classes = append(res.Classes, "server-forced-close")
	} else if closed != wantClose(c) {
		res.Err = fmt.Errorf("connection closed=%v after the response, but the request asked for close=%v", closed, wantClose(c))
		return res
	}
	if v := Tracker.Finish(); len(v) > 0 {
		res.Classes = append(res.Classes, "buffer-ownership-violation(C11 subject)")
		if vlib.ContainsPoison(wire, 8) {
			res.Err = fmt.Errorf("freed-buffer poison on the wire: %s", v[0])
			return res
		}
	}
	res.NonTrivial = len(ex.body) > 0 && ex.bodyOps >= 2
	if len(ex.body) >= 65536 {
		res.Classes = append(res.Classes, "body>=64KiB")
	}
	return res
}

func TestCheck(t *testing.T) {
	r := vlib.NewRunner(t, "C09")
	vlib.RunCheck(r, vlib.Check[Case]{Name: "framing", N: r.Pick(60000, 1000000), Gen: Gen, Run: runCase})
	r.Finish()
}
