package c07

import (
	"testing"

	"verifharness/vlib"
)

// Coverage-guided search over the strict-grammar generator's choices (thorough tier).
func FuzzDifferential(f *testing.F) {
	vlib.FuzzGenerated(f, "C07", "differential", gen, runCase)
}
