package c07

import (
	"bufio"
	"bytes"
	"fmt"
	"io"
	"net/http"
	"sort"
	"strings"
	"testing"
	"time"

	"verifharness/vlib"

	"github.com/lesismal/nbio/nbhttp"
	"pgregory.net/rapid"
)

type Case struct {
	Client  bool     `json:"client"`
	Stream  []byte   `json:"stream"`
	Preview string   `json:"preview"`
	Classes []string `json:"classes,omitempty"`
	NT      bool     `json:"nontrivial"`
}

var inline = func(f func()) { f() }

type msg struct {
	Method, URI, Proto, Host string
	Major, Minor             int
	Close                    bool
	Code                     int
	Status                   string
	Header                   http.Header
	Trailer                  http.Header
	Body                     []byte
	CL                       []string
	End                      int
}

type countingReader struct {
	r io.Reader
	n int
}

func (c *countingReader) Read(p []byte) (int, error) {
	n, err := c.r.Read(p)
	c.n += n
	return n, err
}

func trimAll(h http.Header, drop ...string) http.Header {
	out := http.Header{}
	dropm := map[string]bool{}
	for _, d := range drop {
		dropm[d] = true
	}
	for k, vv := range h {
		if dropm[k] {
			continue
		}
		nv := make([]string, len(vv))
		for i, v := range vv {
			nv[i] = strings.Trim(v, " \t")
		}
		out[k] = nv
	}
	return out
}

func hdrString(h http.Header) string {
	keys := make([]string, 0, len(h))
	for k := range h {
		keys = append(keys, k)
	}
	sort.Strings(keys)
	var sb strings.Builder
	for _, k := range keys {
		fmt.Fprintf(&sb, "%q=%q;", k, h[k])
	}
	return sb.String()
}

// reference parses the stream with net/http.
func reference(client bool, stream []byte) (msgs []msg, err error) {
	cr := &countingReader{r: bytes.NewReader(stream)}
	br := bufio.NewReader(cr)
	for {
		if _, e := br.Peek(1); e != nil {
			return msgs, nil
		}
		var m msg
		if !client {
			req, e := http.ReadRequest(br)
			if e != nil {
				return msgs, e
			}
			body, e := io.ReadAll(req.Body)
			if e != nil {
				return msgs, e
			}
			m = msg{Method: req.Method, URI: req.RequestURI, Proto: req.Proto, Major: req.ProtoMajor, Minor: req.ProtoMinor,
				Host: req.Host, Close: req.Close, Header: req.Header, Trailer: req.Trailer, Body: body}
		} else {
			res, e := http.ReadResponse(br, nil)
			if e != nil {
				return msgs, e
			}
			body, e := io.ReadAll(res.Body)
			if e != nil {
				return msgs, e
			}
			m = msg{Code: res.StatusCode, Status: res.Status, Proto: res.Proto, Major: res.ProtoMajor, Minor: res.ProtoMinor,
				Header: res.Header, Trailer: res.Trailer, Body: body, Close: res.Close}
		}
		m.End = cr.n - br.Buffered()
		msgs = append(msgs, m)
	}
}

// subject parses the stream with nbio, one byte at a time, recording the boundary offsets.
func subject(client bool, stream []byte) (msgs []msg, err error, panicked any) {
	conn := &vlib.FakeConn{}
	var engine *nbhttp.Engine
	var proc nbhttp.Processor
	if !client {
		engine = nbhttp.NewEngine(nbhttp.Config{ServerExecutor: inline, ClientExecutor: inline, SupportServerOnly: true,
			Handler: http.HandlerFunc(func(w http.ResponseWriter, r *http.Request) {
				body, _ := io.ReadAll(r.Body)
				m := msg{Method: r.Method, URI: r.RequestURI, Proto: r.Proto, Major: r.ProtoMajor, Minor: r.ProtoMinor, Host: r.Host,
					Close: r.Close, Header: r.Header.Clone(), Trailer: r.Trailer.Clone(), Body: body}
				msgs = append(msgs, m)
			})})
		proc = nbhttp.NewServerProcessor()
	} else {
		engine = nbhttp.NewEngine(nbhttp.Config{ServerExecutor: inline, ClientExecutor: inline, SupportServerOnly: true})
		proc = nbhttp.NewClientProcessor(&nbhttp.ClientConn{Engine: engine}, func(res *http.Response, e error) {
			if e != nil || res == nil {
				return
			}
			var body []byte
			if res.Body != nil {
				body, _ = io.ReadAll(res.Body)
			}
			msgs = append(msgs, msg{Code: res.StatusCode, Status: res.Status, Proto: res.Proto, Major: res.ProtoMajor, Minor: res.ProtoMinor,
				Header: res.Header.Clone(), Trailer: res.Trailer.Clone(), Body: body})
		})
	}
	p := nbhttp.NewParser(conn, engine, proc, client, nil)
	defer func() {
		if r := recover(); r != nil {
			panicked = r
		}
		p.CloseAndClean(err)
	}()
	for i := range stream {
		before := len(msgs)
		if e := p.Parse([]byte{stream[i]}); e != nil {
			return msgs, e, nil
		}
		for j := before; j < len(msgs); j++ {
			msgs[j].End = i + 1
		}
	}
	return msgs, nil, nil
}

func compare(client bool, k int, want, got msg) error {
	pre := fmt.Sprintf("message %d: ", k)
	if !client {
		if want.Method != got.Method {
			return fmt.Errorf(pre+"method: net/http %q, nbio %q", want.Method, got.Method)
		}
		if want.URI != got.URI {
			return fmt.Errorf(pre+"target: net/http %q, nbio %q", want.URI, got.URI)
		}
		if want.Host != got.Host {
			return fmt.Errorf(pre+"host: net/http %q, nbio %q", want.Host, got.Host)
		}
		if want.Close != got.Close {
			return fmt.Errorf(pre+"connection-close decision: net/http Close=%v, nbio Close=%v (HTTP/%d.%d, Connection=%q)",
				want.Close, got.Close, want.Major, want.Minor, want.Header["Connection"])
		}
	} else {
		if want.Code != got.Code {
			return fmt.Errorf(pre+"status code: net/http %d, nbio %d", want.Code, got.Code)
		}
		reason := strings.TrimPrefix(want.Status, fmt.Sprintf("%d ", want.Code))
		if got.Status == "" || !strings.HasPrefix(reason, got.Status) {
			return fmt.Errorf(pre+"status text: net/http %q, nbio %q (not a non-empty prefix of the reason phrase)", want.Status, got.Status)
		}
	}
	if want.Proto != got.Proto || want.Major != got.Major || want.Minor != got.Minor {
		return fmt.Errorf(pre+"version: net/http %q (%d.%d), nbio %q (%d.%d)", want.Proto, want.Major, want.Minor, got.Proto, got.Major, got.Minor)
	}
	drop := []string{"Host", "Transfer-Encoding", "Trailer", "Content-Length"}
	if client {
		drop = append(drop, "Connection")
	}
	wh, gh := hdrString(trimAll(want.Header, drop...)), hdrString(trimAll(got.Header, drop...))
	if wh != gh {
		return fmt.Errorf(pre+"header multimap differs: net/http {%s} nbio {%s}", wh, gh)
	}
	if !bytes.Equal(want.Body, got.Body) {
		return fmt.Errorf(pre+"body differs: net/http %d bytes %s, nbio %d bytes %s", len(want.Body), vlib.Preview(want.Body, 80), len(got.Body), vlib.Preview(got.Body, 80))
	}
	wt, gt := hdrString(trimAll(want.Trailer)), hdrString(trimAll(got.Trailer))
	if wt != gt {
		return fmt.Errorf(pre+"trailers differ: net/http {%s} nbio {%s}", wt, gt)
	}
	if want.End != got.End {
		return fmt.Errorf(pre+"message boundary: net/http consumed %d bytes, nbio completed the message at offset %d", want.End, got.End)
	}
	return nil
}

func runCase(c Case) vlib.Result {
	return vlib.WithWatchdog(60*time.Second, "the HTTP parser", func() vlib.Result { return runCaseInner(c) })
}

func runCaseInner(c Case) vlib.Result {
	res := vlib.Result{Classes: c.Classes, NonTrivial: c.NT}
	want, werr := reference(c.Client, c.Stream)
	got, gerr, pn := subject(c.Client, c.Stream)
	if pn != nil {
		res.Err = fmt.Errorf("nbio parser panicked: %v", pn)
		return res
	}
	if pl := vlib.Panics(vlib.Logs.Take()); len(pl) > 0 {
		res.Err = fmt.Errorf("nbio logged a recovered panic: %s", pl[0])
		return res
	}
	n := len(want)
	if len(got) < n {
		n = len(got)
	}
	for k := 0; k < n; k++ {
		if err := compare(c.Client, k, want[k], got[k]); err != nil {
			res.Err = err
			return res
		}
	}
	if werr == nil && gerr != nil {
		res.Err = fmt.Errorf("net/http accepts the stream (%d messages) but nbio rejects it after %d messages: %v", len(want), len(got), gerr)
		return res
	}
	if werr != nil && gerr == nil {
		// generator bug or a genuine over-acceptance: the strict grammar should be accepted by net/http
		res.Err = fmt.Errorf("net/http rejects the stream after %d messages (%v) but nbio accepts it (%d messages)", len(want), werr, len(got))
		return res
	}
	if len(want) != len(got) {
		res.Err = fmt.Errorf("message count: net/http %d, nbio %d (errors: %v / %v)", len(want), len(got), werr, gerr)
		return res
	}
	if werr != nil {
		res.Classes = append(res.Classes, "both-reject")
	}
	return res
}

func gen(t *rapid.T) Case {
	c := Case{Client: rapid.IntRange(0, 2).Draw(t, "client") == 0}
	big := rapid.IntRange(0, 30).Draw(t, "big") == 0
	stream, infos := vlib.GenStream(t, vlib.HTTPOpts{Client: c.Client, Strict: true, MaxMsg: 4, Big: big})
	seen := map[string]bool{}
	for _, mi := range infos {
		for _, cl := range mi.Classes {
			if !seen[cl] {
				seen[cl] = true
				c.Classes = append(c.Classes, cl)
			}
		}
		if mi.HasBody || mi.Trailers > 0 || mi.NHeaders >= 3 {
			c.NT = true
		}
	}
	if len(infos) > 1 {
		c.NT = true
		c.Classes = append(c.Classes, "pipelined")
	}
	if c.Client {
		c.Classes = append(c.Classes, "side=client")
	} else {
		c.Classes = append(c.Classes, "side=server")
	}
	c.Stream = stream
	c.Preview = vlib.Preview(stream, 240)
	return c
}

func TestCheck(t *testing.T) {
	r := vlib.NewRunner(t, "C07")
	vlib.RunCheck(r, vlib.Check[Case]{Name: "differential", N: r.Pick(120000, 2000000), Gen: gen, Run: runCase})
	r.Finish()
}
