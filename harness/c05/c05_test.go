package c05

import (
	"fmt"
	"runtime"
	"sync"
	"sync/atomic"
	"testing"
	"time"

	"verifharness/vlib"

	"github.com/lesismal/nbio"
	"pgregory.net/rapid"
)

type Op struct {
	K    string `json:"k"` // submit, release, rundeferred, close
	Must bool   `json:"must,omitempty"`
	Kind string `json:"kind,omitempty"` // quick, gate, panic, nested
	Gate int    `json:"gate,omitempty"`
}

type Case struct {
	Exec    string `json:"executor"` // inline, deferred, goroutine, pool
	Workers int    `json:"workers,omitempty"`
	Ops     []Op   `json:"ops"`
}

type jobRec struct {
	id       int
	accepted bool
	must     bool
	starts   int32
	ends     int32
	startSeq int64
	parent   int
}

type world struct {
	mu       sync.Mutex
	seq      int64
	inflight int32
	overlap  int32
	jobs     []*jobRec
	deferred []func()
	gates    map[int]chan struct{}
}

func (w *world) gate(i int) chan struct{} {
	w.mu.Lock()
	defer w.mu.Unlock()
	g, ok := w.gates[i]
	if !ok {
		g = make(chan struct{})
		w.gates[i] = g
	}
	return g
}

func (w *world) newJob(must bool, parent int) *jobRec {
	w.mu.Lock()
	j := &jobRec{id: len(w.jobs), must: must, parent: parent}
	w.jobs = append(w.jobs, j)
	w.mu.Unlock()
	return j
}

func (w *world) body(j *jobRec, kind string, gateNo int, conn *nbio.Conn) func() {
	return func() {
		if atomic.AddInt32(&w.inflight, 1) != 1 {
			atomic.StoreInt32(&w.overlap, 1)
		}
		atomic.AddInt32(&j.starts, 1)
		atomic.StoreInt64(&j.startSeq, atomic.AddInt64(&w.seq, 1))
		defer func() {
			atomic.AddInt32(&j.ends, 1)
			atomic.AddInt32(&w.inflight, -1)
		}()
		switch kind {
		case "gate":
			<-w.gate(gateNo)
		case "panic":
			panic("job panics on purpose")
		case "nested":
			nj := w.newJob(true, j.id)
			nj.accepted = true
			conn.MustExecute(w.body(nj, "quick", 0, conn))
		}
	}
}

func setup(exec string, workers int, w *world) (*nbio.Engine, *nbio.Conn, func(), error) {
	g := nbio.NewEngine(nbio.Config{NPoller: 1})
	cleanup := func() {}
	switch exec {
	case "inline":
		g.Execute = func(f func()) { f() }
	case "deferred":
		g.Execute = func(f func()) {
			w.mu.Lock()
			w.deferred = append(w.deferred, f)
			w.mu.Unlock()
		}
	case "goroutine":
		g.Execute = func(f func()) { go f() }
	case "pool":
		ch := make(chan func(), 4096)
		quit := make(chan struct{})
		for i := 0; i < workers; i++ {
			go func() {
				for {
					select {
					case f := <-ch:
						f()
					case <-quit:
						return
					}
				}
			}()
		}
		g.Execute = func(f func()) { ch <- f }
		cleanup = func() { close(quit) }
	}
	if err := g.Start(); err != nil {
		return nil, nil, cleanup, err
	}
	a, peer, err := vlib.StreamPair("unix", 0, 0)
	if err != nil {
		return nil, nil, cleanup, err
	}
	conn, err := g.AddConn(a)
	if err != nil {
		return nil, nil, cleanup, err
	}
	old := cleanup
	cleanup = func() { peer.Close(); old() }
	return g, conn, cleanup, nil
}

func runSeq(c Case) vlib.Result {
	vlib.Logs.Take()
	res := vlib.Result{Classes: []string{"executor=" + c.Exec}}
	w := &world{gates: map[int]chan struct{}{0: make(chan struct{}), 1: make(chan struct{}), 2: make(chan struct{})}}
	g, conn, cleanup, err := setup(c.Exec, c.Workers, w)
	if err != nil {
		return vlib.Fail("harness: %v", err)
	}
	defer cleanup()
	defer vlib.StopEngine(g.Stop, 10*time.Second)
	closed := false
	released := map[int]bool{}
	var order []int // controller submissions that were accepted, in submission order
	whileBusy := false
	for oi, op := range c.Ops {
		switch op.K {
		case "submit":
			kind := op.Kind
			if kind == "gate" && (c.Exec == "inline" || c.Exec == "deferred") {
				kind = "quick" // a blocking job would block the controller itself
			}
			if kind == "gate" && released[op.Gate] {
				kind = "quick"
			}
			j := w.newJob(op.Must, -1)
			w.mu.Lock()
			pending := len(w.deferred) > 0
			w.mu.Unlock()
			if atomic.LoadInt32(&w.inflight) > 0 || pending {
				whileBusy = true
			}
			body := w.body(j, kind, op.Gate, conn)
			if op.Must {
				conn.MustExecute(body)
				j.accepted = true
			} else {
				ok := conn.Execute(body)
				j.accepted = ok
				if closed && ok {
					res.Err = fmt.Errorf("op %d: Execute on a closed connection returned true", oi)
					return res
				}
				if !closed && !ok {
					res.Err = fmt.Errorf("op %d: Execute on an open connection returned false", oi)
					return res
				}
			}
			if j.accepted {
				order = append(order, j.id)
			}
		case "release":
			if !released[op.Gate] {
				released[op.Gate] = true
				close(w.gate(op.Gate))
			}
		case "rundeferred":
			w.mu.Lock()
			var f func()
			if len(w.deferred) > 0 {
				f = w.deferred[0]
				w.deferred = w.deferred[1:]
			}
			w.mu.Unlock()
			if f != nil {
				f()
			}
		case "close":
			_ = conn.Close()
			closed = true
		}
	}
	// let everything finish
	w.mu.Lock()
	for i, gch := range w.gates {
		if !released[i] {
			released[i] = true
			close(gch)
		}
	}
	w.mu.Unlock()
	deadline := time.Now().Add(5 * time.Second)
	for {
		w.mu.Lock()
		var f func()
		if len(w.deferred) > 0 {
			f = w.deferred[0]
			w.deferred = w.deferred[1:]
		}
		w.mu.Unlock()
		if f != nil {
			f()
			continue
		}
		done := true
		w.mu.Lock()
		for _, j := range w.jobs {
			if j.accepted && atomic.LoadInt32(&j.ends) == 0 {
				done = false
			}
		}
		w.mu.Unlock()
		if done || time.Now().After(deadline) {
			break
		}
		time.Sleep(200 * time.Microsecond)
	}
	time.Sleep(2 * time.Millisecond)
	if atomic.LoadInt32(&w.overlap) != 0 {
		res.Err = fmt.Errorf("two jobs of the same connection ran at the same time")
		return res
	}
	w.mu.Lock()
	jobs := append([]*jobRec(nil), w.jobs...)
	w.mu.Unlock()
	for _, j := range jobs {
		st := atomic.LoadInt32(&j.starts)
		switch {
		case j.accepted && st == 0:
			res.Err = fmt.Errorf("job %d (must=%v, parent %d) was accepted but never ran (waited 5 s); %d jobs in total", j.id, j.must, j.parent, len(jobs))
			return res
		case st > 1:
			res.Err = fmt.Errorf("job %d ran %d times", j.id, st)
			return res
		case !j.accepted && st > 0:
			res.Err = fmt.Errorf("job %d was refused (Execute returned false) but ran", j.id)
			return res
		}
	}
	last := int64(0)
	for _, id := range order {
		s := atomic.LoadInt64(&jobs[id].startSeq)
		if s < last {
			res.Err = fmt.Errorf("job %d started before a job that was submitted earlier (not FIFO); submission order %v", id, order)
			return res
		}
		last = s
	}
	for _, j := range jobs {
		if j.parent >= 0 && atomic.LoadInt64(&j.startSeq) < atomic.LoadInt64(&jobs[j.parent].startSeq) {
			res.Err = fmt.Errorf("nested job %d started before its parent %d", j.id, j.parent)
			return res
		}
	}
	res.NonTrivial = whileBusy
	return res
}

func genSeq(t *rapid.T) Case {
	c := Case{Exec: rapid.SampledFrom([]string{"inline", "deferred", "goroutine", "pool"}).Draw(t, "executor")}
	if c.Exec == "pool" {
		c.Workers = rapid.IntRange(1, 4).Draw(t, "workers")
	}
	n := rapid.IntRange(1, 40).Draw(t, "nops")
	for i := 0; i < n; i++ {
		switch rapid.IntRange(0, 11).Draw(t, "op") {
		case 0:
			c.Ops = append(c.Ops, Op{K: "release", Gate: rapid.IntRange(0, 2).Draw(t, "gate")})
		case 1, 2:
			c.Ops = append(c.Ops, Op{K: "rundeferred"})
		case 3:
			if rapid.IntRange(0, 3).Draw(t, "doclose") == 0 {
				c.Ops = append(c.Ops, Op{K: "close"})
			}
		default:
			c.Ops = append(c.Ops, Op{K: "submit", Must: rapid.IntRange(0, 3).Draw(t, "must") == 0,
				Kind: rapid.SampledFrom([]string{"quick", "quick", "gate", "panic", "nested"}).Draw(t, "kind"), Gate: rapid.IntRange(0, 2).Draw(t, "gate")})
		}
	}
	return c
}

// ---------- stress ----------

type Stress struct {
	Exec       string `json:"executor"`
	Workers    int    `json:"workers,omitempty"`
	Submitters int    `json:"submitters"`
	Jobs       int    `json:"jobs_each"`
	CloseAfter int    `json:"close_after"` // submitter 0 closes the connection after this many of its jobs (-1 never)
	Procs      int    `json:"gomaxprocs"`
	PanicEvery int    `json:"panic_every"`
	// YieldPerMille (instrumented build only): probability, in 1/1000, with which every lock / unlock
	// statement of the library yields the processor or sleeps 1-50 us (schedule perturbation)
	YieldPerMille int `json:"yield_per_mille,omitempty"`
}

func runStress(c Stress) vlib.Result {
	defer vlib.Yield(c.YieldPerMille, 0x5eed)()
	vlib.Logs.Take()
	res := vlib.Result{Classes: []string{"stress", "executor=" + c.Exec, fmt.Sprintf("gomaxprocs=%d", c.Procs)}}
	old := runtime.GOMAXPROCS(c.Procs)
	defer runtime.GOMAXPROCS(old)
	w := &world{gates: map[int]chan struct{}{}}
	g, conn, cleanup, err := setup(c.Exec, c.Workers, w)
	if err != nil {
		return vlib.Fail("harness: %v", err)
	}
	defer cleanup()
	defer vlib.StopEngine(g.Stop, 10*time.Second)
	var inflight, overlap int32
	type sj struct {
		accepted bool
		runs     int32
		seq      int64
	}
	all := make([][]*sj, c.Submitters)
	var seq int64
	var closedFlag int32
	var wrongAccept int32
	var wg sync.WaitGroup
	for s := 0; s < c.Submitters; s++ {
		all[s] = make([]*sj, c.Jobs)
		wg.Add(1)
		go func(s int) {
			defer wg.Done()
			for i := 0; i < c.Jobs; i++ {
				j := &sj{}
				all[s][i] = j
				must := (i+s)%5 == 0
				doPanic := c.PanicEvery > 0 && (i+1)%c.PanicEvery == 0
				body := func() {
					if atomic.AddInt32(&inflight, 1) != 1 {
						atomic.StoreInt32(&overlap, 1)
					}
					atomic.AddInt32(&j.runs, 1)
					atomic.StoreInt64(&j.seq, atomic.AddInt64(&seq, 1))
					atomic.AddInt32(&inflight, -1)
					if doPanic {
						panic("stress job panics on purpose")
					}
				}
				wasClosed := atomic.LoadInt32(&closedFlag) == 1
				if must {
					conn.MustExecute(body)
					j.accepted = true
				} else {
					j.accepted = conn.Execute(body)
					if wasClosed && j.accepted {
						atomic.StoreInt32(&wrongAccept, 1)
					}
				}
				if s == 0 && i == c.CloseAfter {
					_ = conn.Close()
					atomic.StoreInt32(&closedFlag, 1)
				}
			}
		}(s)
	}
	wg.Wait()
	ok := vlib.WaitProgress(5*time.Second, func() bool {
		for s := range all {
			for _, j := range all[s] {
				if j.accepted && atomic.LoadInt32(&j.runs) == 0 {
					return false
				}
			}
		}
		return true
	}, func() int64 { return atomic.LoadInt64(&seq) })
	time.Sleep(2 * time.Millisecond)
	if atomic.LoadInt32(&overlap) != 0 {
		res.Err = fmt.Errorf("two jobs of the same connection ran at the same time")
		return res
	}
	if atomic.LoadInt32(&wrongAccept) != 0 {
		res.Err = fmt.Errorf("Execute returned true after Close had returned")
		return res
	}
	for s := range all {
		last := int64(0)
		for i, j := range all[s] {
			r := atomic.LoadInt32(&j.runs)
			switch {
			case j.accepted && r == 0:
				res.Err = fmt.Errorf("submitter %d job %d was accepted but never ran (all accepted ran=%v)", s, i, ok)
				return res
			case r > 1:
				res.Err = fmt.Errorf("submitter %d job %d ran %d times", s, i, r)
				return res
			case !j.accepted && r > 0:
				res.Err = fmt.Errorf("submitter %d job %d was refused but ran", s, i)
				return res
			}
			if j.accepted {
				if q := atomic.LoadInt64(&j.seq); q < last {
					res.Err = fmt.Errorf("submitter %d: job %d ran before an earlier job of the same submitter", s, i)
					return res
				} else {
					last = q
				}
			}
		}
	}
	res.NonTrivial = true
	return res
}

func genStress(t *rapid.T) Stress {
	c := Stress{Exec: rapid.SampledFrom([]string{"inline", "goroutine", "pool"}).Draw(t, "executor")}
	if c.Exec == "pool" {
		c.Workers = rapid.IntRange(1, 4).Draw(t, "workers")
	}
	c.Submitters = rapid.SampledFrom([]int{2, 3, 4, 8, 16}).Draw(t, "submitters")
	c.Jobs = rapid.SampledFrom([]int{50, 200, 1000, 2000}).Draw(t, "jobs")
	c.CloseAfter = -1
	if rapid.Bool().Draw(t, "close") {
		c.CloseAfter = rapid.IntRange(0, c.Jobs-1).Draw(t, "closeafter")
	}
	c.Procs = rapid.SampledFrom([]int{1, 2, 4, 16}).Draw(t, "procs")
	c.PanicEvery = rapid.SampledFrom([]int{0, 0, 7, 50}).Draw(t, "panicevery")
	if vlib.YieldAvailable {
		c.YieldPerMille = rapid.SampledFrom([]int{0, 0, 20, 100, 300}).Draw(t, "yield")
	}
	return c
}

// CloseRace: several connections, each hammered with Execute by a few goroutines while it is closed
// (by the application, by the peer, or by the peer resetting). The engine's close callback queues a
// "close job" with MustExecute, the way nbhttp does its close handling.
type CloseRace struct {
	Exec       string `json:"executor"`
	Workers    int    `json:"workers,omitempty"`
	Conns      int    `json:"conns"`
	Submitters int    `json:"submitters"`
	CloseBy    string `json:"close_by"` // close, peer-close, closewitherror
	DelayUs    int    `json:"delay_us"`
	Procs      int    `json:"gomaxprocs"`
	// YieldPerMille (instrumented build only): probability, in 1/1000, with which every lock / unlock
	// statement of the library yields the processor or sleeps 1-50 us (schedule perturbation)
	YieldPerMille int `json:"yield_per_mille,omitempty"`
}

func runCloseRace(c CloseRace) vlib.Result {
	defer vlib.Yield(c.YieldPerMille, 0x5eed)()
	vlib.Logs.Take()
	res := vlib.Result{Classes: []string{"close-race", "executor=" + c.Exec, "close-by=" + c.CloseBy, fmt.Sprintf("gomaxprocs=%d", c.Procs)}}
	old := runtime.GOMAXPROCS(c.Procs)
	defer runtime.GOMAXPROCS(old)
	g := nbio.NewEngine(nbio.Config{NPoller: 1})
	cleanup := func() {}
	switch c.Exec {
	case "inline":
		g.Execute = func(f func()) { f() }
	case "goroutine":
		g.Execute = func(f func()) { go f() }
	case "pool":
		ch := make(chan func(), 65536)
		quit := make(chan struct{})
		for i := 0; i < c.Workers; i++ {
			go func() {
				for {
					select {
					case f := <-ch:
						f()
					case <-quit:
						return
					}
				}
			}()
		}
		g.Execute = func(f func()) { ch <- f }
		cleanup = func() { close(quit) }
	}
	defer cleanup()
	type cst struct {
		seq        int64 // per-connection run counter
		closeSeq   int64 // value of seq when the close job ran (0 = not yet)
		inflight   int32
		overlap    int32
		afterJobs  int32 // accepted jobs that ran after the close job
		accepted   int64
		ran        int64
		refusedRan int32
	}
	var mu sync.Mutex
	states := map[*nbio.Conn]*cst{}
	g.OnClose(func(nc *nbio.Conn, err error) {
		mu.Lock()
		st := states[nc]
		mu.Unlock()
		if st == nil {
			return
		}
		nc.MustExecute(func() {
			if atomic.AddInt32(&st.inflight, 1) != 1 {
				atomic.StoreInt32(&st.overlap, 1)
			}
			atomic.StoreInt64(&st.closeSeq, atomic.AddInt64(&st.seq, 1))
			atomic.AddInt32(&st.inflight, -1)
		})
	})
	if err := g.Start(); err != nil {
		return vlib.Fail("harness: %v", err)
	}
	defer vlib.StopEngine(g.Stop, 10*time.Second)
	var wg sync.WaitGroup
	var all []*cst
	for i := 0; i < c.Conns; i++ {
		a, peer, err := vlib.StreamPair("unix", 0, 0)
		if err != nil {
			return vlib.Fail("harness: %v", err)
		}
		defer peer.Close()
		st := &cst{}
		all = append(all, st)
		nbc, err := nbio.NBConn(a)
		if err != nil {
			return vlib.Fail("harness: %v", err)
		}
		mu.Lock()
		states[nbc] = st
		mu.Unlock()
		if _, err := g.AddConn(nbc); err != nil {
			return vlib.Fail("harness: %v", err)
		}
		var stop int32
		for s := 0; s < c.Submitters; s++ {
			wg.Add(1)
			go func() {
				defer wg.Done()
				refusals := 0
				for n := 0; n < 2000000 && refusals < 3 && atomic.LoadInt32(&stop) < 2; n++ {
					var accepted int32 // 0 undecided, 1 accepted, 2 refused
					var ranEarly int32
					ok := nbc.Execute(func() {
						if atomic.AddInt32(&st.inflight, 1) != 1 {
							atomic.StoreInt32(&st.overlap, 1)
						}
						atomic.AddInt64(&st.seq, 1)
						atomic.AddInt64(&st.ran, 1)
						if atomic.LoadInt64(&st.closeSeq) != 0 {
							atomic.AddInt32(&st.afterJobs, 1)
						}
						if atomic.LoadInt32(&accepted) == 2 {
							atomic.StoreInt32(&st.refusedRan, 1)
						}
						atomic.StoreInt32(&ranEarly, 1)
						atomic.AddInt32(&st.inflight, -1)
					})
					if ok {
						atomic.StoreInt32(&accepted, 1)
						atomic.AddInt64(&st.accepted, 1)
					} else {
						atomic.StoreInt32(&accepted, 2)
						if atomic.LoadInt32(&ranEarly) == 1 {
							atomic.StoreInt32(&st.refusedRan, 1)
						}
						refusals++
					}
				}
			}()
		}
		wg.Add(1)
		go func() {
			defer wg.Done()
			deadline := time.Now().Add(time.Duration(c.DelayUs) * time.Microsecond)
			for time.Now().Before(deadline) {
				runtime.Gosched()
			}
			switch c.CloseBy {
			case "peer-close":
				_ = peer.Close()
			case "closewitherror":
				_ = nbc.CloseWithError(fmt.Errorf("closed by the harness"))
			default:
				_ = nbc.Close()
			}
			// safety net for the submitters' loop bound only
			time.AfterFunc(5*time.Second, func() { atomic.StoreInt32(&stop, 2) })
		}()
	}
	wg.Wait()
	ok := vlib.WaitProgress(5*time.Second, func() bool {
		for _, st := range all {
			if atomic.LoadInt64(&st.closeSeq) == 0 || atomic.LoadInt64(&st.ran) < atomic.LoadInt64(&st.accepted) {
				return false
			}
		}
		return true
	}, func() int64 {
		var n int64
		for _, st := range all {
			n += atomic.LoadInt64(&st.seq)
		}
		return n
	})
	time.Sleep(2 * time.Millisecond)
	for i, st := range all {
		switch {
		case atomic.LoadInt32(&st.overlap) != 0:
			res.Err = fmt.Errorf("connection %d: two jobs of the same connection ran at the same time", i)
		case atomic.LoadInt32(&st.refusedRan) != 0:
			res.Err = fmt.Errorf("connection %d: a job that Execute refused was run", i)
		case atomic.LoadInt32(&st.afterJobs) != 0:
			res.Err = fmt.Errorf("connection %d: %d job(s) accepted by Execute ran after the close handling queued by the close callback had already run", i, st.afterJobs)
		case atomic.LoadInt64(&st.closeSeq) == 0:
			res.Err = fmt.Errorf("connection %d: the close job queued with MustExecute from the close callback never ran (waited=%v)", i, ok)
		case atomic.LoadInt64(&st.ran) != atomic.LoadInt64(&st.accepted):
			res.Err = fmt.Errorf("connection %d: %d jobs accepted by Execute but %d ran", i, st.accepted, st.ran)
		}
		if res.Err != nil {
			return res
		}
		if st.accepted > 0 {
			res.NonTrivial = true
		}
	}
	return res
}

func genCloseRace(t *rapid.T) CloseRace {
	c := CloseRace{Exec: rapid.SampledFrom([]string{"inline", "goroutine", "pool"}).Draw(t, "executor")}
	if c.Exec == "pool" {
		c.Workers = rapid.IntRange(1, 4).Draw(t, "workers")
	}
	c.Conns = rapid.SampledFrom([]int{1, 4, 8}).Draw(t, "conns")
	c.Submitters = rapid.SampledFrom([]int{1, 2, 4, 8}).Draw(t, "submitters")
	c.CloseBy = rapid.SampledFrom([]string{"close", "peer-close", "closewitherror"}).Draw(t, "closeby")
	c.DelayUs = rapid.SampledFrom([]int{0, 20, 100, 500}).Draw(t, "delay")
	c.Procs = rapid.SampledFrom([]int{2, 4, 16}).Draw(t, "procs")
	if vlib.YieldAvailable {
		c.YieldPerMille = rapid.SampledFrom([]int{0, 0, 20, 100, 300}).Draw(t, "yield")
	}
	return c
}

func TestCheck(t *testing.T) {
	r := vlib.NewRunner(t, "C05")
	vlib.RunCheck(r, vlib.Check[Case]{Name: "sequences", N: r.Pick(20000, 400000), Gen: genSeq, Run: runSeq, RecordCurrent: true})
	vlib.RunCheck(r, vlib.Check[Stress]{Name: "stress", N: r.Pick(800, 20000), Gen: genStress, Run: runStress, RecordCurrent: true})
	vlib.RunCheck(r, vlib.Check[CloseRace]{Name: "close-race", N: r.Pick(800, 20000), Gen: genCloseRace, Run: runCloseRace, RecordCurrent: true})
	r.Finish()
}
