package c17

import (
	"errors"
	"fmt"
	"io"
	"net"
	"os"
	"sync"
	"sync/atomic"
	"syscall"
	"testing"
	"time"

	"verifharness/vlib"

	"github.com/lesismal/nbio"
	"pgregory.net/rapid"
)

type Step struct {
	K     string `json:"k"`               // write, writev, sendfile, drain, peerread
	Rel   string `json:"rel,omitempty"`   // fit, overflow, exactM, abs
	Delta int    `json:"delta,omitempty"` // added to the relative size
	N     int    `json:"n,omitempty"`     // absolute size / bytes the peer reads
	Parts int    `json:"parts,omitempty"` // writev: number of buffers
}

type Case struct {
	Transport string `json:"transport"`
	Mode      string `json:"mode"`
	M         int    `json:"max_write_buffer"`
	SndBuf    int    `json:"sndbuf"`
	RcvBuf    int    `json:"peer_rcvbuf"`
	Steps     []Step `json:"steps"`
}

type seg struct {
	file bool
	n    int64
}

func sockBuf(c net.Conn, opt int) int {
	sc, ok := c.(interface {
		SyscallConn() (syscall.RawConn, error)
	})
	if !ok {
		return 0
	}
	rc, err := sc.SyscallConn()
	if err != nil {
		return 0
	}
	v := 0
	_ = rc.Control(func(fd uintptr) { v, _ = syscall.GetsockoptInt(int(fd), syscall.SOL_SOCKET, opt) })
	return v
}

func runCase(c Case) vlib.Result {
	res := vlib.Result{Classes: []string{"mode=" + c.Mode, "transport=" + c.Transport, fmt.Sprintf("M=%d", c.M)}}
	conf := nbio.Config{NPoller: 1, MaxWriteBufferSize: c.M}
	vlib.ApplyMode(&conf, c.Mode)
	g := nbio.NewEngine(conf)
	var closeErr atomic.Value
	closedCh := make(chan struct{})
	var closeOnce sync.Once
	g.OnClose(func(_ *nbio.Conn, err error) {
		if err != nil {
			closeErr.Store(err)
		}
		closeOnce.Do(func() { close(closedCh) })
	})
	// bytes of buffers (not files) handed to the kernel, as reported by the public OnWrittenSize hook
	var written int64
	g.OnWrittenSize(func(_ *nbio.Conn, b []byte, n int) {
		if b != nil {
			atomic.AddInt64(&written, int64(n))
		}
	})
	if err := g.Start(); err != nil {
		return vlib.Fail("harness: engine start: %v", err)
	}
	defer vlib.StopEngine(g.Stop, 10*time.Second)
	a, peer, err := vlib.StreamPair(c.Transport, c.SndBuf, c.RcvBuf)
	if err != nil {
		return vlib.Fail("harness: socket pair: %v", err)
	}
	defer peer.Close()
	// payload the kernel can hold between the two endpoints: the reported buffer sizes are limits that
	// may be overshot by one skb each (tens of KiB), so the bracket uses a generous capacity
	kcap := int64(2*(sockBuf(a, syscall.SO_SNDBUF)+sockBuf(peer, syscall.SO_RCVBUF)) + 256*1024)
	nbc, err := g.AddConn(a)
	if err != nil {
		return vlib.Fail("harness: AddConn: %v", err)
	}
	defer nbc.Close()

	var segs []seg
	var accepted, bufAccepted int64 // stream bytes / buffer bytes accepted
	var received int64
	tmpdir, _ := os.MkdirTemp("", "c17f")
	defer os.RemoveAll(tmpdir)
	buf := make([]byte, 1<<20)

	bufReceivedOf := func(recv int64) int64 {
		var br, off int64
		for _, s := range segs {
			if recv <= off {
				break
			}
			take := s.n
			if recv-off < take {
				take = recv - off
			}
			if !s.file {
				br += take
			}
			off += s.n
		}
		return br
	}
	peerRead := func(want int64, wait time.Duration) error {
		deadline := time.Now().Add(wait)
		for want > 0 {
			max := int64(len(buf))
			if want < max {
				max = want
			}
			_ = peer.SetReadDeadline(time.Now().Add(100 * time.Millisecond))
			n, err := peer.Read(buf[:max])
			if n > 0 {
				if bad := vlib.CheckTagged(0, received, buf[:n]); bad >= 0 {
					return fmt.Errorf("stream offset %d: wrong byte (data lost, duplicated or reordered)", received+int64(bad))
				}
				received += int64(n)
				want -= int64(n)
				deadline = time.Now().Add(wait)
			}
			if err != nil {
				if ne, ok := err.(net.Error); ok && ne.Timeout() {
					if time.Now().After(deadline) {
						return fmt.Errorf("peer waited %v for %d more bytes (accepted %d, received %d)", wait, want, accepted, received)
					}
					continue
				}
				return fmt.Errorf("peer read: %v", err)
			}
		}
		return nil
	}

	nearLimit, drainedAfter := false, false
	// the hook gives the exact user-space backlog (buffer bytes accepted - buffer bytes written); it is
	// only trusted after it has been validated at a complete drain, where both must be equal
	hookOK := false
	hookBad := false
	for si, st := range c.Steps {
		switch st.K {
		case "drain":
			if err := peerRead(accepted-received, 4*time.Second); err != nil {
				res.Err = fmt.Errorf("step %d drain: %v", si, err)
				return res
			}
			if nearLimit {
				drainedAfter = true
			}
			if !hookBad {
				if vlib.WaitUntil(200*time.Millisecond, func() bool { return atomic.LoadInt64(&written) == bufAccepted }) {
					hookOK = true
				} else {
					hookOK, hookBad = false, true
					res.Classes = append(res.Classes, "written-size-hook-inconsistent(not used)")
				}
			}
			continue
		case "peerread":
			want := int64(st.N)
			if want > accepted-received {
				want = accepted - received
			}
			if err := peerRead(want, 4*time.Second); err != nil {
				res.Err = fmt.Errorf("step %d peerread: %v", si, err)
				return res
			}
			continue
		}
		recvBefore := received
		upperB := bufAccepted - bufReceivedOf(recvBefore)
		lowerB := upperB - kcap
		if lowerB < 0 {
			lowerB = 0
		}
		if hookOK {
			// the queue can only shrink between this reading and the call (flush), so this is an upper bound
			if hb := bufAccepted - atomic.LoadInt64(&written); hb < upperB {
				upperB = hb
			}
			if hb := bufAccepted - atomic.LoadInt64(&written); hb > lowerB {
				lowerB = hb // estimate for choosing the size; the asserted lower bound is re-read after the call
			}
		}
		bufAcceptedBefore := bufAccepted
		var n int64
		switch st.Rel {
		case "fit":
			n = int64(c.M) - upperB + int64(st.Delta)
			if st.N > 1 {
				n /= int64(st.N)
			}
		case "overflow":
			n = int64(c.M) - lowerB + int64(st.Delta)
		case "exactM":
			n = int64(c.M) + int64(st.Delta)
		default:
			n = int64(st.N)
		}
		if n < 0 {
			n = 0
		}
		if n > 3<<20 {
			n = 3 << 20
		}
		if st.K == "sendfile" && n == 0 {
			n = 1
		}
		data := vlib.FillTagged(0, accepted, int(n))
		var rn int64
		var werr error
		switch st.K {
		case "write":
			var k int
			k, werr = nbc.Write(data)
			rn = int64(k)
		case "writev":
			parts := st.Parts
			if parts < 1 {
				parts = 1
			}
			var bufs [][]byte
			rest := data
			for i := 0; i < parts; i++ {
				l := len(rest) / (parts - i)
				bufs = append(bufs, rest[:l])
				rest = rest[l:]
			}
			var k int
			k, werr = nbc.Writev(bufs)
			rn = int64(k)
		case "sendfile":
			f, ferr := os.CreateTemp(tmpdir, "sf")
			if ferr != nil {
				return vlib.Fail("harness: temp file: %v", ferr)
			}
			_, _ = f.Write(data)
			_, _ = f.Seek(0, io.SeekStart)
			rn, werr = nbc.Sendfile(f, n)
			_ = f.Close()
		}
		isBuf := st.K != "sendfile"
		// sound lower bound at the time of the call: whatever the hook reports as written after the call
		// returned had at most been written when the call decided
		lowerB = bufAccepted - bufReceivedOf(recvBefore) - kcap
		if lowerB < 0 {
			lowerB = 0
		}
		if hookOK {
			if hb := bufAcceptedBefore - atomic.LoadInt64(&written); hb > lowerB {
				lowerB = hb
			}
		}
		mustFit := !isBuf || upperB+n <= int64(c.M)
		mustOverflow := isBuf && n > 0 && lowerB+n > int64(c.M)
		desc := fmt.Sprintf("step %d %s of %d bytes (M=%d, backlog bracket [%d,%d], kernel capacity %d, accepted %d received %d)", si, st.K, n, c.M, lowerB, upperB, kcap, accepted, recvBefore)
		if werr == nil {
			if rn != n {
				res.Err = fmt.Errorf("%s returned (%d, nil)", desc, rn)
				return res
			}
			if mustOverflow {
				res.Err = fmt.Errorf("%s was accepted although the backlog would exceed the maximum (at least %d + %d > %d)", desc, lowerB, n, c.M)
				return res
			}
			segs = append(segs, seg{file: !isBuf, n: n})
			accepted += n
			if isBuf {
				bufAccepted += n
				if upperB > 0 && upperB+n > int64(c.M)*3/4 {
					nearLimit = true
				}
			}
			continue
		}
		// the write failed
		if mustFit {
			res.Err = fmt.Errorf("%s failed with %v although it fits (at most %d + %d <= %d): the accounting does not follow the true backlog", desc, werr, upperB, n, c.M)
			return res
		}
		if !errors.Is(werr, nbio.ErrOverflow) {
			res.Err = fmt.Errorf("%s failed with %v, want ErrOverflow", desc, werr)
			return res
		}
		select {
		case <-closedCh:
		case <-time.After(3 * time.Second):
			res.Err = fmt.Errorf("%s overflowed but the connection was not closed within 3 s", desc)
			return res
		}
		if ce, _ := closeErr.Load().(error); !errors.Is(ce, nbio.ErrOverflow) {
			res.Err = fmt.Errorf("%s overflowed; the close notification carries %v, want ErrOverflow", desc, closeErr.Load())
			return res
		}
		if n2, err2 := nbc.Write([]byte("x")); err2 == nil {
			res.Err = fmt.Errorf("Write after the overflow close returned (%d, nil)", n2)
			return res
		}
		res.Classes = append(res.Classes, "overflowed")
		nearLimit = true
		res.NonTrivial = true
		return res
	}
	res.NonTrivial = nearLimit && drainedAfter
	if res.NonTrivial {
		res.Classes = append(res.Classes, "near-limit-then-drained")
	}
	return res
}

func gen(t *rapid.T) Case {
	c := Case{Transport: rapid.SampledFrom([]string{"tcp", "tcp", "unix"}).Draw(t, "transport"), Mode: rapid.SampledFrom(vlib.Modes).Draw(t, "mode")}
	c.M = rapid.SampledFrom([]int{1024, 4096, 65536, 65537, 200000, 1 << 20}).Draw(t, "M")
	c.SndBuf = rapid.SampledFrom([]int{4096, 8192, 65536}).Draw(t, "sndbuf")
	c.RcvBuf = rapid.SampledFrom([]int{4096, 8192, 65536}).Draw(t, "rcvbuf")
	cycles := rapid.IntRange(1, 6).Draw(t, "cycles")
	for cy := 0; cy < cycles; cy++ {
		// optionally fill the kernel with a file range first (not counted against M), so that every
		// following buffer is queued in user space and the backlog can be steered exactly to M
		if rapid.Bool().Draw(t, "kernfill") {
			c.Steps = append(c.Steps, Step{K: "sendfile", Rel: "abs", N: rapid.SampledFrom([]int{300000, 600000, 1200000}).Draw(t, "kernfillsize")})
		}
		nfill := rapid.IntRange(0, 5).Draw(t, "nfill")
		for i := 0; i < nfill; i++ {
			k := rapid.SampledFrom([]string{"write", "write", "writev", "sendfile"}).Draw(t, "kind")
			st := Step{K: k, Parts: rapid.IntRange(1, 4).Draw(t, "parts")}
			switch rapid.IntRange(0, 11).Draw(t, "rel") {
			case 0:
				st.Rel, st.N = "abs", rapid.SampledFrom([]int{0, 1, 100}).Draw(t, "tiny")
			case 1, 2, 3, 4:
				st.Rel, st.Delta = "fit", -rapid.SampledFrom([]int{0, 0, 1, 2, 100}).Draw(t, "fitdelta")
			case 5:
				st.Rel, st.Delta = "overflow", rapid.SampledFrom([]int{1, 1, 2, 100}).Draw(t, "ovdelta")
			case 6, 7, 8:
				st.Rel, st.N = "abs", rapid.SampledFrom([]int{c.M / 8, c.M / 5, c.M / 3}).Draw(t, "frac")
			default:
				// half of what certainly still fits
				st.Rel, st.Delta = "fit", -1
				st.N = 2
			}
			if k == "sendfile" && st.Rel == "overflow" {
				st.Rel, st.Delta = "fit", 0
			}
			c.Steps = append(c.Steps, st)
			if rapid.IntRange(0, 4).Draw(t, "peerread") == 0 {
				c.Steps = append(c.Steps, Step{K: "peerread", N: rapid.SampledFrom([]int{1, 1000, 10000, 100000}).Draw(t, "readn")})
			}
		}
		c.Steps = append(c.Steps, Step{K: "drain"})
		// after a complete drain the whole budget must be available again
		c.Steps = append(c.Steps, Step{K: rapid.SampledFrom([]string{"write", "writev"}).Draw(t, "mkind"), Rel: "exactM", Delta: -rapid.SampledFrom([]int{0, 0, 0, 1}).Draw(t, "mdelta"), Parts: rapid.IntRange(1, 3).Draw(t, "mparts")})
		if rapid.Bool().Draw(t, "drain2") {
			c.Steps = append(c.Steps, Step{K: "drain"})
		}
	}
	return c
}

func TestCheck(t *testing.T) {
	r := vlib.NewRunner(t, "C17")
	vlib.RunCheck(r, vlib.Check[Case]{Name: "bound", N: r.Pick(8000, 150000), Gen: gen, Run: runCase, Confirm: true, RecordCurrent: true})
	runShimTier(r)
	r.Finish()
}
