//go:build verifshim

package c17

import (
	"errors"
	"fmt"
	"io"
	"net"
	"os"
	"sync"
	"sync/atomic"
	"time"

	"verifharness/vlib"

	"github.com/lesismal/nbio"
	"pgregory.net/rapid"
)

// Exact tier: the harness decides what the "kernel" takes (a blocked phase answers every write of the
// connection with EAGAIN, single writes can be truncated), and reads the byte counter and the true
// queued byte sum through the overlay accessor. So accept/reject is predicted exactly:
// accepted iff backlog + n <= M, and counter == true backlog after every operation.

type SStep struct {
	K     string `json:"k"`             // block, unblock, write, writev, sendfile, truncnext
	Rel   string `json:"rel,omitempty"` // fit, abs
	Delta int    `json:"delta,omitempty"`
	N     int    `json:"n,omitempty"`
	Parts int    `json:"parts,omitempty"`
}

type ShimCase struct {
	Transport string  `json:"transport"`
	Mode      string  `json:"mode"` // LT or ET+ONESHOT (see the faithfulness rule)
	M         int     `json:"max_write_buffer"`
	Steps     []SStep `json:"steps"`
}

func runShim(c ShimCase) vlib.Result {
	res := vlib.Result{Classes: []string{"shim", "mode=" + c.Mode, fmt.Sprintf("M=%d", c.M)}}
	conf := nbio.Config{NPoller: 1, MaxWriteBufferSize: c.M}
	vlib.ApplyMode(&conf, c.Mode)
	g := nbio.NewEngine(conf)
	var closeErr atomic.Value
	closedCh := make(chan struct{})
	var once sync.Once
	g.OnClose(func(_ *nbio.Conn, err error) {
		if err != nil {
			closeErr.Store(err)
		}
		once.Do(func() { close(closedCh) })
	})
	if err := g.Start(); err != nil {
		return vlib.Fail("harness: engine start: %v", err)
	}
	defer vlib.StopEngine(g.Stop, 10*time.Second)
	a, peer, err := vlib.StreamPair(c.Transport, 0, 0)
	if err != nil {
		return vlib.Fail("harness: pair: %v", err)
	}
	defer peer.Close()
	nbc, err := g.AddConn(a)
	if err != nil {
		return vlib.Fail("harness: AddConn: %v", err)
	}
	defer nbc.Close()
	fd := -1
	if rc, e := nbc.SyscallConn(); e == nil {
		_ = rc.Control(func(f uintptr) { fd = int(f) })
	}
	var blocked int32
	var truncNext int64
	nbio.VerifSetHook(func(op string, f int, n int) (int, int) {
		if f != fd || op == "read" {
			return nbio.VerifPass, 0
		}
		if atomic.LoadInt32(&blocked) == 1 {
			return nbio.VerifEAGAIN, 0
		}
		if k := atomic.SwapInt64(&truncNext, 0); k > 0 && int(k) < n {
			return nbio.VerifTruncate, int(k)
		}
		return nbio.VerifPass, 0
	})
	defer nbio.VerifSetHook(nil)
	// the peer reads everything and checks the content
	var received int64
	var badAt int64 = -1
	stopRead := make(chan struct{})
	readDone := make(chan struct{})
	go func() {
		defer close(readDone)
		buf := make([]byte, 1<<18)
		for {
			select {
			case <-stopRead:
				return
			default:
			}
			_ = peer.SetReadDeadline(time.Now().Add(20 * time.Millisecond))
			n, err := peer.Read(buf)
			if n > 0 {
				if i := vlib.CheckTagged(0, atomic.LoadInt64(&received), buf[:n]); i >= 0 && atomic.LoadInt64(&badAt) < 0 {
					atomic.StoreInt64(&badAt, atomic.LoadInt64(&received)+int64(i))
				}
				atomic.AddInt64(&received, int64(n))
			}
			if err != nil {
				if ne, ok := err.(net.Error); ok && ne.Timeout() {
					continue
				}
				return
			}
		}
	}()
	defer func() { close(stopRead); <-readDone }()
	tmpdir, _ := os.MkdirTemp("", "c17s")
	defer os.RemoveAll(tmpdir)
	var accepted int64
	reached := false
	for si, st := range c.Steps {
		switch st.K {
		case "block":
			atomic.StoreInt32(&blocked, 1)
			continue
		case "unblock":
			atomic.StoreInt32(&blocked, 0)
			// in LT the armed write event fires at once; in one-shot mode the registration was renewed
			// after the last EAGAIN, so it fires as well
			if !vlib.WaitUntil(4*time.Second, func() bool { return atomic.LoadInt64(&received) >= accepted }) {
				left, queued, files, wAdded, closed := nbio.VerifBacklog(nbc)
				res.Err = fmt.Errorf("step %d: after the kernel accepts writes again the backlog does not drain: %d of %d delivered (left=%d queued=%d files=%d writeArmed=%v closed=%v)", si, received, accepted, left, queued, files, wAdded, closed)
				return res
			}
			vlib.WaitUntil(time.Second, func() bool { l, q, _, _, _ := nbio.VerifBacklog(nbc); return l == 0 && q == 0 })
			if l, q, _, _, _ := nbio.VerifBacklog(nbc); l != 0 || q != 0 {
				res.Err = fmt.Errorf("step %d: everything was delivered but the counter says %d bytes are held (true queued bytes %d): the accounting drifts", si, l, q)
				return res
			}
			continue
		case "truncnext":
			atomic.StoreInt64(&truncNext, int64(st.N))
			continue
		}
		left, queued, _, _, _ := nbio.VerifBacklog(nbc)
		if left != queued {
			res.Err = fmt.Errorf("step %d: counter %d != true queued bytes %d before the operation", si, left, queued)
			return res
		}
		var n int
		if st.Rel == "fit" {
			n = c.M - left + st.Delta
		} else {
			n = st.N
		}
		if n < 0 {
			n = 0
		}
		if n > 3<<20 {
			n = 3 << 20
		}
		if st.K == "sendfile" && n == 0 {
			n = 1
		}
		data := vlib.FillTagged(0, accepted, n)
		var rn int64
		var werr error
		isBuf := st.K != "sendfile"
		// the overflow test uses the counter at call time; with the kernel blocked or the queue
		// non-empty nothing drains during the call, so the prediction is exact
		blockedNow := atomic.LoadInt32(&blocked) == 1
		switch st.K {
		case "write":
			var k int
			k, werr = nbc.Write(data)
			rn = int64(k)
		case "writev":
			parts := st.Parts
			if parts < 1 {
				parts = 1
			}
			var bufs [][]byte
			rest := data
			for i := 0; i < parts; i++ {
				l := len(rest) / (parts - i)
				bufs = append(bufs, rest[:l])
				rest = rest[l:]
			}
			var k int
			k, werr = nbc.Writev(bufs)
			rn = int64(k)
		case "sendfile":
			f, ferr := os.CreateTemp(tmpdir, "sf")
			if ferr != nil {
				return vlib.Fail("harness: temp file: %v", ferr)
			}
			_, _ = f.Write(data)
			_, _ = f.Seek(0, io.SeekStart)
			rn, werr = nbc.Sendfile(f, int64(n))
			_ = f.Close()
		}
		desc := fmt.Sprintf("step %d %s of %d bytes (M=%d, exact backlog before: %d, kernel blocked=%v)", si, st.K, n, c.M, left, blockedNow)
		exact := blockedNow || left > 0 // otherwise a concurrent flush cannot matter either: queue empty means B = 0
		_ = exact
		mustFit := !isBuf || left+n <= c.M
		mustOverflow := isBuf && n > 0 && left+n > c.M
		if werr == nil {
			if rn != int64(n) {
				res.Err = fmt.Errorf("%s returned (%d, nil)", desc, rn)
				return res
			}
			if mustOverflow {
				res.Err = fmt.Errorf("%s was accepted: %d + %d > %d", desc, left, n, c.M)
				return res
			}
			accepted += int64(n)
			l2, q2, _, _, _ := nbio.VerifBacklog(nbc)
			if l2 > c.M {
				res.Err = fmt.Errorf("%s: the counter is %d afterwards, above the maximum", desc, l2)
				return res
			}
			if blockedNow && isBuf && (l2 != left+n || q2 != left+n) {
				res.Err = fmt.Errorf("%s: kernel refuses everything, so the backlog must be %d; counter=%d true queued=%d", desc, left+n, l2, q2)
				return res
			}
			if left+n > c.M*3/4 && left > 0 {
				reached = true
			}
			continue
		}
		if mustFit {
			res.Err = fmt.Errorf("%s failed with %v although it fits exactly (%d + %d <= %d)", desc, werr, left, n, c.M)
			return res
		}
		if !errors.Is(werr, nbio.ErrOverflow) {
			res.Err = fmt.Errorf("%s failed with %v, want ErrOverflow", desc, werr)
			return res
		}
		select {
		case <-closedCh:
		case <-time.After(3 * time.Second):
			res.Err = fmt.Errorf("%s overflowed but the connection was not closed", desc)
			return res
		}
		if ce, _ := closeErr.Load().(error); !errors.Is(ce, nbio.ErrOverflow) {
			res.Err = fmt.Errorf("%s overflowed; close notification carries %v", desc, closeErr.Load())
			return res
		}
		res.NonTrivial = true
		res.Classes = append(res.Classes, "overflowed-exactly")
		return res
	}
	if b := atomic.LoadInt64(&badAt); b >= 0 {
		res.Err = fmt.Errorf("stream offset %d: wrong byte delivered", b)
		return res
	}
	res.NonTrivial = reached
	return res
}

func genShim(t *rapid.T) ShimCase {
	c := ShimCase{Transport: rapid.SampledFrom([]string{"tcp", "unix"}).Draw(t, "transport"), Mode: rapid.SampledFrom([]string{vlib.ModeLT, vlib.ModeOneshot}).Draw(t, "mode")}
	c.M = rapid.SampledFrom([]int{1, 100, 1024, 65536, 65537, 200000}).Draw(t, "M")
	cycles := rapid.IntRange(1, 5).Draw(t, "cycles")
	for cy := 0; cy < cycles; cy++ {
		if rapid.IntRange(0, 3).Draw(t, "trunc") == 0 {
			c.Steps = append(c.Steps, SStep{K: "truncnext", N: rapid.SampledFrom([]int{1, 2, 100, 4096}).Draw(t, "trunck")})
			c.Steps = append(c.Steps, SStep{K: rapid.SampledFrom([]string{"write", "writev"}).Draw(t, "tk"), Rel: "abs", N: rapid.SampledFrom([]int{2, c.M / 2, c.M}).Draw(t, "tn"), Parts: rapid.IntRange(1, 3).Draw(t, "tparts")})
		}
		c.Steps = append(c.Steps, SStep{K: "block"})
		n := rapid.IntRange(1, 5).Draw(t, "nops")
		for i := 0; i < n; i++ {
			k := rapid.SampledFrom([]string{"write", "write", "writev", "sendfile"}).Draw(t, "kind")
			st := SStep{K: k, Parts: rapid.IntRange(1, 4).Draw(t, "parts")}
			switch rapid.IntRange(0, 5).Draw(t, "rel") {
			case 0:
				st.Rel, st.N = "abs", rapid.SampledFrom([]int{0, 1, c.M / 3, c.M / 2}).Draw(t, "abs")
			case 1:
				st.Rel, st.Delta = "fit", rapid.SampledFrom([]int{1, 2, 100}).Draw(t, "over") // one too many
			default:
				st.Rel, st.Delta = "fit", -rapid.SampledFrom([]int{0, 0, 1, 2, c.M / 2}).Draw(t, "under")
			}
			c.Steps = append(c.Steps, st)
		}
		c.Steps = append(c.Steps, SStep{K: "unblock"})
		c.Steps = append(c.Steps, SStep{K: "write", Rel: "abs", N: c.M}) // the whole budget is available again
	}
	return c
}

func runShimTier(r *vlib.Runner) {
	vlib.RunCheck(r, vlib.Check[ShimCase]{Name: "shim-exact", N: r.Pick(4000, 150000), Gen: genShim, Run: runShim, Confirm: true, RecordCurrent: true})
}
