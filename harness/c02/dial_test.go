package c02

import (
	"fmt"
	"net"
	"os"
	"path/filepath"
	"sync"
	"sync/atomic"
	"time"

	"verifharness/vlib"

	"github.com/lesismal/nbio"
	"pgregory.net/rapid"
)

// Dialed connections whose peer speaks first: the engine dials (DialAsync / DialAsyncTimeout) a server that
// sends a greeting as soon as it has accepted and then waits for an answer. The greeting can be in the
// socket already when the poller handles the connect completion (always so when the poller is busy in
// another connection's callback at that time), so writability and readability arrive in one event. Every
// byte of the greeting has to reach the data callback of the dialed connection, in every epoll mode; when
// the server closes its sending direction behind the greeting, still every byte.
type DialGreet struct {
	Mode      string `json:"mode"`
	Async     bool   `json:"async_read"`
	NPoller   int    `json:"npoller"`
	Dials     int    `json:"dials"`
	GreetLen  int    `json:"greet_len"`
	HoldMs    int    `json:"hold_poller_ms"`  // another connection's data callback keeps the poller busy this long while the dials complete
	TimeoutMs int    `json:"dial_timeout_ms"` // 0 = DialAsync
	HalfClose bool   `json:"half_close"`
	Transport string `json:"transport"` // tcp, unix, udp (the dialed socket says hello, the server greets with datagrams)
	// GreetDelayMs: the server waits this long after accepting before it sends the greeting, so that the
	// event which reports the connect (or the first writability) carries no input yet
	GreetDelayMs int `json:"greet_delay_ms,omitempty"`
}

func runDialGreet(c DialGreet) vlib.Result {
	res := vlib.Result{Classes: []string{"dial-greeting", "mode=" + c.Mode, fmt.Sprintf("poller-held=%v", c.HoldMs > 0)}}
	vlib.Logs.Take()
	addr := "127.0.0.1:0"
	if c.Transport == "unix" {
		dir, err := os.MkdirTemp("", "vdial")
		if err != nil {
			return vlib.Fail("harness: temp dir: %v", err)
		}
		defer os.RemoveAll(dir)
		addr = filepath.Join(dir, "s")
	}
	dialAddr := ""
	var ln net.Listener
	if c.Transport == "udp" {
		// datagrams: the server answers the first datagram of every remote address with the greeting, cut into
		// datagrams of 1000 bytes (at most 20, paced: nothing the kernel would drop)
		if c.GreetLen > 20000 {
			c.GreetLen = 20000
		}
		c.HalfClose = false
		pc, err := net.ListenUDP("udp", &net.UDPAddr{IP: net.IPv4(127, 0, 0, 1)})
		if err != nil {
			return vlib.Fail("harness: listen udp: %v", err)
		}
		defer pc.Close()
		dialAddr = pc.LocalAddr().String()
		go func() {
			seen := map[string]bool{}
			buf := make([]byte, 2048)
			for {
				_, ra, err := pc.ReadFromUDP(buf)
				if err != nil {
					return
				}
				if seen[ra.String()] {
					continue
				}
				seen[ra.String()] = true
				go func(ra *net.UDPAddr) {
					if c.GreetDelayMs > 0 {
						time.Sleep(time.Duration(c.GreetDelayMs) * time.Millisecond)
					}
					for off := 0; off < c.GreetLen; off += 1000 {
						n := c.GreetLen - off
						if n > 1000 {
							n = 1000
						}
						_, _ = pc.WriteToUDP(vlib.FillTagged(0, int64(off), n), ra)
						time.Sleep(300 * time.Microsecond)
					}
				}(ra)
			}
		}()
	} else {
		var err error
		ln, err = net.Listen(c.Transport, addr)
		if err != nil {
			return vlib.Fail("harness: listen: %v", err)
		}
		defer ln.Close()
		dialAddr = ln.Addr().String()
	}
	var pmu sync.Mutex
	var peers []net.Conn
	defer func() {
		pmu.Lock()
		for _, p := range peers {
			_ = p.Close()
		}
		pmu.Unlock()
	}()
	go func() {
		if ln == nil {
			return
		}
		for {
			p, err := ln.Accept()
			if err != nil {
				return
			}
			pmu.Lock()
			peers = append(peers, p)
			pmu.Unlock()
			go func(p net.Conn) {
				if c.GreetDelayMs > 0 {
					time.Sleep(time.Duration(c.GreetDelayMs) * time.Millisecond)
				}
				_ = p.SetWriteDeadline(time.Now().Add(20 * time.Second))
				_, _ = p.Write(vlib.FillTagged(0, 0, c.GreetLen))
				if c.HalfClose {
					switch pc := p.(type) {
					case *net.TCPConn:
						_ = pc.CloseWrite()
					case *net.UnixConn:
						_ = pc.CloseWrite()
					}
				}
				// then silence: the server waits for the client's answer
			}(p)
		}
	}()

	conf := nbio.Config{NPoller: c.NPoller, AsyncReadInPoller: c.Async}
	vlib.ApplyMode(&conf, c.Mode)
	g := nbio.NewEngine(conf)
	type st struct {
		pos int64
		bad string
	}
	var mu sync.Mutex
	states := map[*nbio.Conn]*st{}
	var blocker *nbio.Conn
	var delivered int64
	var lastProgress atomic.Int64
	lastProgress.Store(time.Now().UnixNano())
	held := make(chan struct{}, 1)
	g.OnData(func(conn *nbio.Conn, data []byte) {
		mu.Lock()
		isBlocker := conn == blocker
		s := states[conn]
		if s == nil && !isBlocker {
			s = &st{}
			states[conn] = s
		}
		mu.Unlock()
		if isBlocker {
			select {
			case held <- struct{}{}:
			default:
			}
			time.Sleep(time.Duration(c.HoldMs) * time.Millisecond)
			return
		}
		if s.bad == "" {
			if i := vlib.CheckTagged(0, s.pos, data); i >= 0 {
				s.bad = fmt.Sprintf("greeting offset %d: got %#x want %#x (bytes lost, duplicated or reordered)", s.pos+int64(i), data[i], vlib.TagByte(0, s.pos+int64(i)))
			}
		}
		s.pos += int64(len(data))
		atomic.AddInt64(&delivered, int64(len(data)))
		lastProgress.Store(time.Now().UnixNano())
	})
	if err := g.Start(); err != nil {
		return vlib.Fail("harness: engine start: %v", err)
	}
	defer vlib.StopEngine(g.Stop, 10*time.Second)

	if c.HoldMs > 0 {
		a, peer, err := vlib.StreamPair("tcp", 0, 0)
		if err != nil {
			return vlib.Fail("harness: socket pair: %v", err)
		}
		defer peer.Close()
		nbc, err := nbio.NBConn(a)
		if err != nil {
			return vlib.Fail("harness: NBConn: %v", err)
		}
		mu.Lock()
		blocker = nbc
		mu.Unlock()
		if _, err := g.AddConn(nbc); err != nil {
			return vlib.Fail("harness: AddConn: %v", err)
		}
		_, _ = peer.Write([]byte{1})
		select {
		case <-held:
		case <-time.After(5 * time.Second):
			res.Err = fmt.Errorf("the byte sent to an added connection never reached its data callback (5 s)")
			return res
		}
	}
	var okDials, failedDials, callbacks int64
	var conns []*nbio.Conn
	for i := 0; i < c.Dials; i++ {
		cb := func(nc *nbio.Conn, err error) {
			// counted last: the main goroutine reads the other counters once every callback has been counted
			defer atomic.AddInt64(&callbacks, 1)
			if err != nil {
				atomic.AddInt64(&failedDials, 1)
				return
			}
			mu.Lock()
			conns = append(conns, nc)
			if states[nc] == nil {
				states[nc] = &st{}
			}
			mu.Unlock()
			atomic.AddInt64(&okDials, 1)
			if c.Transport == "udp" {
				_, _ = nc.Write([]byte("hello")) // the server learns the address and greets
			}
		}
		var derr error
		if c.TimeoutMs > 0 {
			derr = g.DialAsyncTimeout(c.Transport, dialAddr, time.Duration(c.TimeoutMs)*time.Millisecond, cb)
		} else {
			derr = g.DialAsync(c.Transport, dialAddr, cb)
		}
		if derr != nil {
			return vlib.Fail("harness: DialAsync: %v", derr)
		}
	}
	if !vlib.WaitUntil(10*time.Second, func() bool { return atomic.LoadInt64(&callbacks) == int64(c.Dials) }) {
		res.Err = fmt.Errorf("%d dials to a listening server were issued, %d dial callbacks ran within 10 s", c.Dials, atomic.LoadInt64(&callbacks))
		return res
	}
	if n := atomic.LoadInt64(&failedDials); n > 0 {
		// a dial to a listening loopback server that fails (timeout under load): nothing to assert for it
		res.Classes = append(res.Classes, "some dials failed (not asserted)")
	}
	total := atomic.LoadInt64(&okDials) * int64(c.GreetLen)
	vlib.WaitUntil(40*time.Second, func() bool {
		return atomic.LoadInt64(&delivered) >= total || time.Since(time.Unix(0, lastProgress.Load())) > window
	})
	mu.Lock()
	defer mu.Unlock()
	for i, nc := range conns {
		s := states[nc]
		if s.bad != "" {
			res.Err = fmt.Errorf("dialed connection %d: %s", i, s.bad)
			return res
		}
		if s.pos != int64(c.GreetLen) {
			res.Err = fmt.Errorf("dialed connection %d of %d: the server sent a greeting of %d bytes right after accepting, the data callback got %d of them (nothing more for %v; poller held %d ms while the dials completed, half-close %v)", i, len(conns), c.GreetLen, s.pos, window, c.HoldMs, c.HalfClose)
			return res
		}
	}
	res.NonTrivial = len(conns) > 0
	// everything was delivered and the peers are silent: nothing may keep running (a registration left
	// at "writable" in level-triggered mode wakes the poller for ever)
	if !c.HalfClose {
		mu.Unlock()
		err := idleCheck(&res)
		mu.Lock()
		if err != nil {
			res.Err = fmt.Errorf("after %d dialed connection(s) (%s) received their greeting: %v", len(conns), c.Transport, err)
		}
	}
	return res
}

func genDialGreet(t *rapid.T) DialGreet {
	c := DialGreet{Mode: rapid.SampledFrom(vlib.Modes).Draw(t, "mode"), Async: rapid.IntRange(0, 3).Draw(t, "async") == 0}
	c.NPoller = rapid.SampledFrom([]int{1, 1, 2}).Draw(t, "npoller")
	c.Dials = rapid.IntRange(1, 6).Draw(t, "dials")
	c.GreetLen = rapid.SampledFrom([]int{1, 48, 4096, 65536, 65537, 300000}).Draw(t, "greetlen")
	c.HoldMs = rapid.SampledFrom([]int{0, 5, 30}).Draw(t, "holdms")
	c.TimeoutMs = rapid.SampledFrom([]int{0, 0, 5000}).Draw(t, "timeoutms")
	c.HalfClose = rapid.IntRange(0, 3).Draw(t, "halfclose") == 0
	c.Transport = rapid.SampledFrom([]string{"tcp", "tcp", "unix", "udp"}).Draw(t, "transport")
	c.GreetDelayMs = rapid.SampledFrom([]int{0, 0, 2, 40}).Draw(t, "greetdelay")
	return c
}
