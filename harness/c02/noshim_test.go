//go:build !verifshim

package c02

const shimAvailable = false

func installReadScript(fds map[int]bool, script []int, injected *[4]int64) func() { return func() {} }
