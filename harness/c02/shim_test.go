//go:build verifshim

package c02

import (
	"sync/atomic"

	"github.com/lesismal/nbio"
)

// Syscall-shim tier of C02 (stream sockets): the outcome of the connection's read system calls is
// scripted: pass, EINTR, or EAGAIN although data is there. EAGAIN is only injected in LT and
// ET+ONESHOT, where readiness is re-evaluated (level trigger / EPOLL_CTL_MOD re-arm) exactly as after a
// real EAGAIN; in plain ET a faked EAGAIN would lose an edge the kernel never loses, so only EINTR is used.

const shimAvailable = true

func installReadScript(fds map[int]bool, script []int, injected *[4]int64) func() {
	if len(script) == 0 {
		return func() {}
	}
	var idx int64
	nbio.VerifSetHook(func(op string, fd int, n int) (int, int) {
		if op != "read" || !fds[fd] {
			return nbio.VerifPass, 0
		}
		k := script[int(atomic.AddInt64(&idx, 1)-1)%len(script)]
		if k == nbio.VerifEINTR || k == nbio.VerifEAGAIN {
			atomic.AddInt64(&injected[k], 1)
			return k, 0
		}
		return nbio.VerifPass, 0
	})
	return func() { nbio.VerifSetHook(nil) }
}
