package c02

import (
	"encoding/binary"
	"fmt"
	"net"
	"sync"
	"sync/atomic"
	"syscall"
	"testing"
	"time"

	"verifharness/vlib"

	"github.com/lesismal/nbio"
	"pgregory.net/rapid"
)

type Burst struct {
	Size  int `json:"size"`
	GapUs int `json:"gap_us"`
}

type Case struct {
	Mode      string    `json:"mode"`
	Async     bool      `json:"async_read"`
	Exec      string    `json:"io_execute"` // default, goroutine, pool
	Transport string    `json:"transport"`
	NPoller   int       `json:"npoller"`
	ReadBuf   int       `json:"read_buffer"`
	MaxReads  int       `json:"max_reads"`
	Conns     [][]Burst `json:"conns,omitempty"`   // stream transports: per connection bursts
	Remotes   []int     `json:"remotes,omitempty"` // udp: datagrams per remote
	DgSizes   []int     `json:"dg_sizes,omitempty"`
	Window    int       `json:"udp_window,omitempty"`
	// OutBacklog: bytes the engine side writes to every stream connection before the inbound traffic
	// starts; the peers do not read them, so a write backlog is pending while data comes in
	OutBacklog int `json:"out_backlog,omitempty"`
	// ReadScript (syscall-shim build only): outcome of the connection's read system calls, cyclic:
	// 0 pass, 2 EINTR, 3 EAGAIN although data is there (never in plain ET)
	ReadScript []int `json:"read_script,omitempty"`
	// HalfClose: after its last burst every stream peer shuts down its sending direction (FIN); everything
	// it sent before must still be delivered, and nothing may spin afterwards
	HalfClose bool `json:"half_close,omitempty"`
	// ReadBufs: "custom" = the application supplies the read buffers (OnReadBufferAlloc hands out a fresh buffer
	// per read, OnReadBufferFree overwrites it: whatever is delivered after the buffer was given back reads 0xDD);
	// DataPtr: the data callback is registered with OnDataPtr
	ReadBufs string `json:"read_bufs,omitempty"`
	DataPtr  bool   `json:"data_ptr,omitempty"`
}

const window = 4 * time.Second

var udpRcvBuf int64

type connState struct {
	idx int
	pos int64
	bad string
	nCb int64
}

func newEngine(c Case) (*nbio.Engine, func()) {
	conf := nbio.Config{NPoller: c.NPoller, ReadBufferSize: c.ReadBuf, MaxConnReadTimesPerEventLoop: c.MaxReads, AsyncReadInPoller: c.Async}
	vlib.ApplyMode(&conf, c.Mode)
	cleanup := func() {}
	bufSize := c.ReadBuf
	if bufSize <= 0 {
		bufSize = 65536
	}
	switch c.Exec {
	case "goroutine":
		conf.IOExecute = func(f func(*[]byte)) {
			go func() {
				b := make([]byte, bufSize)
				f(&b)
			}()
		}
	case "pool":
		ch := make(chan func(*[]byte), 256)
		quit := make(chan struct{})
		for i := 0; i < 3; i++ {
			go func() {
				b := make([]byte, bufSize)
				for {
					select {
					case f := <-ch:
						bb := b[:bufSize]
						f(&bb)
					case <-quit:
						return
					}
				}
			}()
		}
		conf.IOExecute = func(f func(*[]byte)) {
			select {
			case ch <- f:
			case <-quit:
			}
		}
		cleanup = func() { close(quit) }
	}
	if c.Transport == "udp" {
		conf.Network = "udp"
		conf.Addrs = []string{"127.0.0.1:0"}
		conf.ListenUDP = func(network string, laddr *net.UDPAddr) (*net.UDPConn, error) {
			uc, err := net.ListenUDP(network, laddr)
			if err == nil {
				// a big receive buffer, so that the kernel cannot drop datagrams of the generated windows
				if rc, e := uc.SyscallConn(); e == nil {
					_ = rc.Control(func(fd uintptr) {
						const SO_RCVBUFFORCE = 33
						if syscall.SetsockoptInt(int(fd), syscall.SOL_SOCKET, SO_RCVBUFFORCE, 16<<20) != nil {
							_ = syscall.SetsockoptInt(int(fd), syscall.SOL_SOCKET, syscall.SO_RCVBUF, 16<<20)
						}
						v, _ := syscall.GetsockoptInt(int(fd), syscall.SOL_SOCKET, syscall.SO_RCVBUF)
						atomic.StoreInt64(&udpRcvBuf, int64(v))
					})
				}
			}
			return uc, err
		}
	}
	g := nbio.NewEngine(conf)
	if c.ReadBufs == "custom" {
		g.OnReadBufferAlloc(func(*nbio.Conn) *[]byte {
			b := make([]byte, bufSize)
			return &b
		})
		g.OnReadBufferFree(func(_ *nbio.Conn, pb *[]byte) {
			b := (*pb)[:cap(*pb)]
			for i := range b {
				b[i] = 0xDD
			}
		})
	}
	return g, cleanup
}

func idleCheck(res *vlib.Result) error {
	time.Sleep(30 * time.Millisecond)
	c0 := vlib.CPUTime()
	t0 := time.Now()
	time.Sleep(250 * time.Millisecond)
	cpu := vlib.CPUTime() - c0
	wall := time.Since(t0)
	if cpu > wall/5 {
		// confirm once over a second window
		c1 := vlib.CPUTime()
		t1 := time.Now()
		time.Sleep(250 * time.Millisecond)
		cpu2 := vlib.CPUTime() - c1
		if cpu2 > time.Since(t1)/5 {
			return fmt.Errorf("no input is pending but the process burned %v CPU in %v (and %v in the next window): a reader is spinning on an empty socket", cpu, wall, cpu2)
		}
	}
	return nil
}

func runCase(c Case) vlib.Result {
	res := vlib.Result{Classes: []string{"cell=" + c.Mode + "/" + fmt.Sprintf("async=%v", c.Async) + "/" + c.Exec + "/" + c.Transport}}
	if c.Transport == "udp" {
		return runUDP(c, res)
	}
	g, cleanup := newEngine(c)
	defer cleanup()
	var mu sync.Mutex
	states := map[*nbio.Conn]*connState{}
	var delivered int64
	var lastProgress atomic.Int64
	lastProgress.Store(time.Now().UnixNano())
	onData := g.OnData
	if c.DataPtr {
		onData = func(h func(*nbio.Conn, []byte)) {
			g.OnDataPtr(func(conn *nbio.Conn, p *[]byte) { h(conn, *p) })
		}
	}
	if c.ReadBufs != "" || c.DataPtr {
		res.Classes = append(res.Classes, fmt.Sprintf("read-bufs=%s/data-ptr=%v", c.ReadBufs, c.DataPtr))
	}
	onData(func(conn *nbio.Conn, data []byte) {
		mu.Lock()
		st := states[conn]
		mu.Unlock()
		if st == nil {
			return
		}
		// callbacks of one connection must not overlap: guard with an in-flight counter
		if atomic.AddInt64(&st.nCb, 1) != 1 && st.bad == "" {
			st.bad = "two data callbacks of the same connection ran at the same time"
		}
		if st.bad == "" {
			if i := vlib.CheckTagged(st.idx, st.pos, data); i >= 0 {
				st.bad = fmt.Sprintf("stream offset %d: got %#x want %#x (bytes lost, duplicated or reordered)", st.pos+int64(i), data[i], vlib.TagByte(st.idx, st.pos+int64(i)))
			}
		}
		st.pos += int64(len(data))
		atomic.AddInt64(&delivered, int64(len(data)))
		lastProgress.Store(time.Now().UnixNano())
		atomic.AddInt64(&st.nCb, -1)
	})
	if err := g.Start(); err != nil {
		return vlib.Fail("harness: engine start: %v", err)
	}
	defer vlib.StopEngine(g.Stop, 10*time.Second)
	var peers []net.Conn
	var sts []*connState
	fds := map[int]bool{}
	var injected [4]int64
	var nbcs []*nbio.Conn
	for i := range c.Conns {
		sndbuf := 0
		if c.OutBacklog > 0 {
			sndbuf = 8192
		}
		a, peer, err := vlib.StreamPair(c.Transport, sndbuf, sndbuf)
		if err != nil {
			return vlib.Fail("harness: socket pair: %v", err)
		}
		defer peer.Close()
		nbc, err := nbio.NBConn(a)
		if err != nil {
			return vlib.Fail("harness: NBConn: %v", err)
		}
		st := &connState{idx: i}
		mu.Lock()
		states[nbc] = st
		mu.Unlock()
		if rc, e := nbc.SyscallConn(); e == nil {
			_ = rc.Control(func(f uintptr) { fds[int(f)] = true })
		}
		nbcs = append(nbcs, nbc)
		peers = append(peers, peer)
		sts = append(sts, st)
	}
	if len(c.ReadScript) > 0 && shimAvailable {
		script := c.ReadScript
		if c.HalfClose {
			// once the peer's FIN has arrived a real read never reports EAGAIN (it reports the data, then 0):
			// a faked EAGAIN would tell the library "nothing left" about a stream whose end it was told of
			script = nil
			for _, k := range c.ReadScript {
				if k == 3 {
					k = 0
				}
				script = append(script, k)
			}
		}
		defer installReadScript(fds, script, &injected)()
	}
	for _, nbc := range nbcs {
		if _, err := g.AddConn(nbc); err != nil {
			return vlib.Fail("harness: AddConn: %v", err)
		}
		if c.OutBacklog > 0 {
			if n, err := nbc.Write(make([]byte, c.OutBacklog)); err != nil || n != c.OutBacklog {
				return vlib.Fail("harness: backlog write returned (%d, %v)", n, err)
			}
		}
	}
	var total int64
	var wg sync.WaitGroup
	var sendErr atomic.Value
	for i, bursts := range c.Conns {
		for _, b := range bursts {
			total += int64(b.Size)
		}
		wg.Add(1)
		go func(i int, bursts []Burst) {
			defer wg.Done()
			pos := int64(0)
			for _, b := range bursts {
				if b.GapUs > 0 {
					time.Sleep(time.Duration(b.GapUs) * time.Microsecond)
				}
				_ = peers[i].SetWriteDeadline(time.Now().Add(3 * window))
				if _, err := peers[i].Write(vlib.FillTagged(i, pos, b.Size)); err != nil {
					sendErr.Store(fmt.Sprintf("peer %d could not send (receiver not reading?): %v", i, err))
					return
				}
				pos += int64(b.Size)
			}
			if c.HalfClose {
				switch pc := peers[i].(type) {
				case *net.TCPConn:
					_ = pc.CloseWrite()
				case *net.UnixConn:
					_ = pc.CloseWrite()
				}
			}
		}(i, c.Conns[i])
	}
	wg.Wait()
	ok := vlib.WaitUntil(10*window, func() bool {
		return atomic.LoadInt64(&delivered) >= total || time.Since(time.Unix(0, lastProgress.Load())) > window
	})
	_ = ok
	for _, st := range sts {
		if st.bad != "" {
			res.Err = fmt.Errorf("connection %d: %s", st.idx, st.bad)
			return res
		}
	}
	if v := sendErr.Load(); v != nil {
		res.Err = fmt.Errorf("%s; delivered %d of %d", v.(string), atomic.LoadInt64(&delivered), total)
		return res
	}
	if got := atomic.LoadInt64(&delivered); got != total {
		res.Err = fmt.Errorf("%d bytes were sent to live connections but only %d were handed to the data callback; nothing more for %v", total, got, window)
		return res
	}
	if c.OutBacklog > 0 {
		res.Classes = append(res.Classes, "write-backlog-pending-during-reads")
	}
	if c.HalfClose {
		res.Classes = append(res.Classes, "peer-half-close")
	}
	// no input is pending now (a pending outbound backlog to a peer that does not read is no reason to
	// run either: the socket is not writable)
	if err := idleCheck(&res); err != nil {
		res.Err = err
		return res
	}
	// nothing may be delivered twice afterwards
	if got := atomic.LoadInt64(&delivered); got != total {
		res.Err = fmt.Errorf("%d bytes sent, %d delivered (duplicates)", total, got)
		return res
	}
	if c.OutBacklog > 0 {
		res.NonTrivial = true
	}
	if injected[2] > 0 {
		res.Classes = append(res.Classes, "injected-read=EINTR")
		res.NonTrivial = true
	}
	if injected[3] > 0 {
		res.Classes = append(res.Classes, "injected-read=EAGAIN")
		res.NonTrivial = true
	}
	nonDefault := c.Mode != vlib.ModeLT || c.Async || c.Exec != "default" || c.ReadBuf != 65536 || c.MaxReads != 3
	for _, bursts := range c.Conns {
		for _, b := range bursts {
			if b.Size > 2*c.ReadBuf && nonDefault {
				res.NonTrivial = true
			}
		}
	}
	return res
}

func runUDP(c Case, res vlib.Result) vlib.Result {
	g, cleanup := newEngine(c)
	defer cleanup()
	type dg struct {
		conn   *nbio.Conn
		remote string
		data   []byte
	}
	var mu sync.Mutex
	var got []dg
	acks := map[string]chan struct{}{}
	var listenerSeen int64
	g.OnData(func(conn *nbio.Conn, data []byte) {
		d := dg{conn: conn, data: append([]byte(nil), data...)}
		if ra := conn.RemoteAddr(); ra != nil {
			d.remote = ra.String()
		}
		mu.Lock()
		got = append(got, d)
		ch := acks[d.remote]
		mu.Unlock()
		if ch != nil {
			select {
			case ch <- struct{}{}:
			default:
			}
		} else {
			atomic.AddInt64(&listenerSeen, 1)
		}
	})
	if err := g.Start(); err != nil {
		return vlib.Fail("harness: engine start: %v", err)
	}
	defer vlib.StopEngine(g.Stop, 10*time.Second)
	addr, err := net.ResolveUDPAddr("udp", g.Addrs[0])
	if err != nil {
		return vlib.Fail("harness: resolve: %v", err)
	}
	type remote struct {
		sock *net.UDPConn
		name string
		n    int
	}
	var rems []*remote
	for _, n := range c.Remotes {
		s, err := net.DialUDP("udp", nil, addr)
		if err != nil {
			return vlib.Fail("harness: dial udp: %v", err)
		}
		defer s.Close()
		r := &remote{sock: s, name: s.LocalAddr().String(), n: n}
		mu.Lock()
		acks[r.name] = make(chan struct{}, 1024)
		mu.Unlock()
		rems = append(rems, r)
	}
	payload := func(ri, seq int) []byte {
		size := c.DgSizes[(ri*7+seq)%len(c.DgSizes)]
		if size < 8 {
			size = 8
		}
		if size > c.ReadBuf {
			size = c.ReadBuf
		}
		b := vlib.FillTagged(ri&3, int64(seq)*131, size)
		binary.BigEndian.PutUint32(b[0:4], uint32(ri))
		binary.BigEndian.PutUint32(b[4:8], uint32(seq))
		return b
	}
	// keep the unacknowledged volume below a quarter of the socket's receive buffer (skb overhead
	// included in the kernel's accounting), otherwise the kernel itself may drop datagrams
	maxSize := 8
	for _, sz := range c.DgSizes {
		if sz > maxSize {
			maxSize = sz
		}
	}
	if maxSize > c.ReadBuf {
		maxSize = c.ReadBuf
	}
	win := c.Window
	if lim := int(atomic.LoadInt64(&udpRcvBuf)) / 4 / (len(rems) * (maxSize + 1024)); win > lim {
		win = lim
	}
	if win < 1 {
		win = 1
	}
	var wg sync.WaitGroup
	var stall atomic.Value
	for ri, r := range rems {
		wg.Add(1)
		go func(ri int, r *remote) {
			defer wg.Done()
			mu.Lock()
			ch := acks[r.name]
			mu.Unlock()
			outstanding := 0
			for seq := 0; seq < r.n; seq++ {
				for outstanding >= win {
					select {
					case <-ch:
						outstanding--
					case <-time.After(window):
						stall.Store(fmt.Sprintf("remote %d: datagram(s) up to #%d were sent but not delivered to the data callback within %v (%d unacknowledged)", ri, seq-1, window, outstanding))
						return
					}
				}
				if _, err := r.sock.Write(payload(ri, seq)); err != nil {
					stall.Store(fmt.Sprintf("remote %d: send failed: %v", ri, err))
					return
				}
				outstanding++
			}
			for outstanding > 0 {
				select {
				case <-ch:
					outstanding--
				case <-time.After(window):
					stall.Store(fmt.Sprintf("remote %d: the last %d datagram(s) of %d were sent but not delivered within %v", ri, outstanding, r.n, window))
					return
				}
			}
		}(ri, r)
	}
	wg.Wait()
	if v := stall.Load(); v != nil {
		res.Err = fmt.Errorf("%s", v.(string))
		return res
	}
	time.Sleep(5 * time.Millisecond)
	mu.Lock()
	all := append([]dg(nil), got...)
	mu.Unlock()
	next := map[string]int{}
	connOf := map[string]*nbio.Conn{}
	remoteOf := map[*nbio.Conn]string{}
	idxOf := map[string]int{}
	for i, r := range rems {
		idxOf[r.name] = i
	}
	for i, d := range all {
		ri, ok := idxOf[d.remote]
		if !ok {
			res.Err = fmt.Errorf("callback %d: datagram attributed to remote %q which is none of the senders", i, d.remote)
			return res
		}
		if len(d.data) < 8 {
			res.Err = fmt.Errorf("callback %d: datagram of %d bytes (boundaries not preserved)", i, len(d.data))
			return res
		}
		gri, seq := int(binary.BigEndian.Uint32(d.data[0:4])), int(binary.BigEndian.Uint32(d.data[4:8]))
		if gri != ri {
			res.Err = fmt.Errorf("callback %d: datagram of remote %d was attributed to the connection of remote %d", i, gri, ri)
			return res
		}
		if seq != next[d.remote] {
			res.Err = fmt.Errorf("remote %d: datagram #%d delivered where #%d was expected (lost, duplicated or reordered)", ri, seq, next[d.remote])
			return res
		}
		next[d.remote]++
		want := payload(ri, seq)
		if len(want) != len(d.data) || string(want) != string(d.data) {
			res.Err = fmt.Errorf("remote %d datagram #%d: delivered %d bytes, sent %d bytes (or content differs): boundaries/content not preserved", ri, seq, len(d.data), len(want))
			return res
		}
		if prev, ok := connOf[d.remote]; ok && prev != d.conn {
			res.Err = fmt.Errorf("remote %d: datagram #%d arrived on a different *Conn than the earlier ones", ri, seq)
			return res
		}
		connOf[d.remote] = d.conn
		if prev, ok := remoteOf[d.conn]; ok && prev != d.remote {
			res.Err = fmt.Errorf("one *Conn was used for two different remotes (%s and %s)", prev, d.remote)
			return res
		}
		remoteOf[d.conn] = d.remote
	}
	for ri, r := range rems {
		if next[r.name] != r.n {
			res.Err = fmt.Errorf("remote %d: %d datagrams sent, %d delivered", ri, r.n, next[r.name])
			return res
		}
	}
	if err := idleCheck(&res); err != nil {
		res.Err = err
		return res
	}
	res.NonTrivial = win > 1 || len(c.Remotes) > 1
	res.Classes = append(res.Classes, fmt.Sprintf("udp-window=%d", win))
	return res
}

func cells() []Case {
	var out []Case
	for _, m := range vlib.Modes {
		for _, async := range []bool{false, true} {
			for _, ex := range []string{"default", "goroutine", "pool"} {
				for _, tr := range []string{"tcp", "unix", "udp"} {
					c := Case{Mode: m, Async: async, Exec: ex, Transport: tr, NPoller: 2, ReadBuf: 4096, MaxReads: 3}
					if tr == "udp" {
						c.Remotes = []int{40, 25}
						c.DgSizes = []int{8, 100, 4096, 1000}
						c.Window = 4
					} else {
						c.Conns = [][]Burst{{{Size: 100000}, {Size: 1, GapUs: 2000}, {Size: 30000, GapUs: 100}}, {{Size: 50000}}}
					}
					out = append(out, c)
					if tr == "tcp" && ex == "default" {
						cb := c
						cb.OutBacklog = 1 << 20
						cb.Conns = [][]Burst{{{Size: 100}, {Size: 5000, GapUs: 20000}, {Size: 1, GapUs: 20000}, {Size: 70000, GapUs: 20000}}}
						out = append(out, cb)
						ch := cb
						ch.HalfClose = true
						out = append(out, ch)
						cn := c
						cn.HalfClose = true
						out = append(out, cn)
					}
				}
			}
		}
	}
	return out
}

func gen(t *rapid.T) Case {
	c := Case{Mode: rapid.SampledFrom(vlib.Modes).Draw(t, "mode"), Async: rapid.Bool().Draw(t, "async"), Exec: rapid.SampledFrom([]string{"default", "goroutine", "pool"}).Draw(t, "exec")}
	c.Transport = rapid.SampledFrom([]string{"tcp", "tcp", "unix", "udp"}).Draw(t, "transport")
	c.NPoller = rapid.IntRange(1, 4).Draw(t, "npoller")
	c.ReadBuf = rapid.SampledFrom([]int{1, 7, 64, 4096, 65536}).Draw(t, "readbuf")
	c.MaxReads = rapid.SampledFrom([]int{1, 2, 3, 100}).Draw(t, "maxreads")
	if c.Transport == "udp" {
		if c.ReadBuf < 64 {
			c.ReadBuf = 64
		}
		n := rapid.IntRange(1, 5).Draw(t, "nremotes")
		for i := 0; i < n; i++ {
			c.Remotes = append(c.Remotes, rapid.IntRange(1, 60).Draw(t, "ndgrams"))
		}
		k := rapid.IntRange(1, 4).Draw(t, "nsizes")
		for i := 0; i < k; i++ {
			c.DgSizes = append(c.DgSizes, rapid.SampledFrom([]int{8, 9, 63, 64, 100, 1000, 4096, 9000, 60000}).Draw(t, "dgsize"))
		}
		c.Window = rapid.SampledFrom([]int{1, 2, 8}).Draw(t, "window")
		return c
	}
	budget := 60000 * c.ReadBuf // bound the number of read syscalls per case
	if budget > 3<<20 {
		budget = 3 << 20
	}
	nc := rapid.IntRange(1, 3).Draw(t, "nconns")
	for i := 0; i < nc; i++ {
		var bursts []Burst
		nb := rapid.IntRange(1, 6).Draw(t, "nbursts")
		for j := 0; j < nb; j++ {
			size := rapid.SampledFrom([]int{1, 2, c.ReadBuf - 1, c.ReadBuf, c.ReadBuf + 1, 2*c.ReadBuf + 1, 3 * c.ReadBuf, 10000, 65536, 300000, 1 << 20}).Draw(t, "bsize")
			if size < 1 {
				size = 1
			}
			if size > budget/(nc*nb) {
				size = budget/(nc*nb) + 1
			}
			bursts = append(bursts, Burst{Size: size, GapUs: rapid.SampledFrom([]int{0, 0, 20, 200, 1000, 5000}).Draw(t, "gapus")})
		}
		c.Conns = append(c.Conns, bursts)
	}
	c.HalfClose = rapid.IntRange(0, 3).Draw(t, "halfclose") == 0
	if rapid.IntRange(0, 3).Draw(t, "custombufs") == 0 {
		c.ReadBufs = "custom"
	}
	c.DataPtr = rapid.IntRange(0, 3).Draw(t, "dataptr") == 0
	if shimAvailable && rapid.Bool().Draw(t, "readscript") {
		kinds := []int{0, 0, 2, 3}
		if c.Mode == vlib.ModeET {
			kinds = []int{0, 0, 2}
		}
		n := rapid.IntRange(1, 8).Draw(t, "nreadscript")
		for i := 0; i < n; i++ {
			c.ReadScript = append(c.ReadScript, rapid.SampledFrom(kinds).Draw(t, "readkind"))
		}
		c.ReadScript = append(c.ReadScript, 0)
	}
	if rapid.IntRange(0, 2).Draw(t, "outbacklog") == 0 {
		c.OutBacklog = rapid.SampledFrom([]int{100000, 1 << 20, 4 << 20}).Draw(t, "outbacklogsize")
		// paced inbound traffic, so that several separate read events happen while the backlog is pending
		for i := range c.Conns {
			for j := range c.Conns[i] {
				if c.Conns[i][j].GapUs < 1000 {
					c.Conns[i][j].GapUs = 2000
				}
			}
		}
	}
	return c
}

func TestCheck(t *testing.T) {
	r := vlib.NewRunner(t, "C02")
	vlib.RunCases(r, "cells", cells(), runCase, true)
	r.MarkExhaustive("matrix cells mode x read mode x IOExecute x transport (54 cells, one fixed workload each)")
	vlib.RunCheck(r, vlib.Check[Case]{Name: "patterns", N: r.Pick(600, 12000), Gen: gen, Run: runCase, Confirm: true, RecordCurrent: true})
	vlib.RunCheck(r, vlib.Check[DialGreet]{Name: "dial-greeting", N: r.Pick(400, 8000), Gen: genDialGreet, Run: runDialGreet, Confirm: true, RecordCurrent: true})
	r.Finish()
}
