package c14

import (
	"encoding/binary"
	"fmt"
	"net"
	"net/http"
	"sync"
	"sync/atomic"
	"testing"
	"time"

	"verifharness/vlib"

	"github.com/lesismal/nbio/nbhttp"
	"github.com/lesismal/nbio/nbhttp/websocket"
	"pgregory.net/rapid"
)

type Case struct {
	Path       string `json:"path"` // nb, blocking-parser, std-readloop, blocking-transfer, std-transfer
	AsyncWrite bool   `json:"async_write"`
	Mode       string `json:"mode"`
	FrameLimit int    `json:"frame_limit"`
	OpenUs     int    `json:"open_handler_us"`
	InSizes    []int  `json:"incoming_sizes"`
	InPaceUs   int    `json:"incoming_pace_us"`
	Writers    int    `json:"writers"`
	PerWriter  int    `json:"msgs_per_writer"`
	OutSizes   []int  `json:"out_sizes"`
	WriteFrom  string `json:"write_from"` // open, first-message
	Ending     string `json:"ending"`     // client-close, client-cut, server-close, client-reset, server-close-mid-handler
	// CtlEvery > 0: the client sends a ping and an unsolicited pong behind every CtlEvery-th message; the
	// server has user ping / pong handlers, which are callbacks of the connection like any other
	CtlEvery  int `json:"ctl_every,omitempty"`
	HandlerUs int `json:"handler_us,omitempty"` // time a message callback stays in the handler (default 50)
	// WritePaceUs: the server-side writers pause this long between their messages, so that the sender of the
	// asynchronous send queue keeps running dry and being restarted
	WritePaceUs int `json:"write_pace_us,omitempty"`
	// AsyncRead: the engine reads in its IO executor instead of the poller goroutine (edge-triggered modes only)
	AsyncRead bool `json:"async_read,omitempty"`
	// YieldPerMille (instrumented build only): probability, in 1/1000, with which every lock / unlock
	// statement of the library yields the processor or sleeps 1-50 us (schedule perturbation)
	YieldPerMille int `json:"yield_per_mille,omitempty"`
}

const frameHdr = 12

func outPayload(w, seq, n int) []byte {
	if n < frameHdr {
		n = frameHdr
	}
	b := vlib.FillTagged(w&3, int64(seq)*100003, n)
	binary.BigEndian.PutUint32(b[0:4], uint32(w))
	binary.BigEndian.PutUint32(b[4:8], uint32(seq))
	binary.BigEndian.PutUint32(b[8:12], uint32(n))
	return b
}

func inPayload(seq, n int) []byte {
	if n < 8 {
		n = 8
	}
	b := vlib.FillTagged(3, int64(seq)*7919, n)
	binary.BigEndian.PutUint32(b[0:4], uint32(seq))
	binary.BigEndian.PutUint32(b[4:8], uint32(n))
	return b
}

type event struct {
	k   string // open-start, open-end, msg-start, msg-end, close
	seq int
	bad string
}

type serverLog struct {
	mu          sync.Mutex
	ev          []event
	inflight    int32
	overlap     int32
	overlapKind int32 // 1: close callback during another callback, 2: ping/pong handler involved
}

func (l *serverLog) add(e event) {
	l.mu.Lock()
	l.ev = append(l.ev, e)
	l.mu.Unlock()
}

type wsServer struct {
	addr   string
	stop   func()
	log    *serverLog
	conn   atomic.Pointer[websocket.Conn]
	wrote  [][]int32 // [writer][seq] 1 = WriteMessage returned nil
	ending int32
	wdone  chan struct{}
}

func startServer(c Case) (*wsServer, error) {
	s := &wsServer{log: &serverLog{}, wdone: make(chan struct{})}
	s.wrote = make([][]int32, c.Writers)
	for i := range s.wrote {
		s.wrote[i] = make([]int32, c.PerWriter)
	}
	u := websocket.NewUpgrader()
	u.KeepaliveTime = 0
	u.BlockingModAsyncWrite = c.AsyncWrite
	var once sync.Once
	startWriters := func(wc *websocket.Conn) {
		once.Do(func() {
			var wg sync.WaitGroup
			for w := 0; w < c.Writers; w++ {
				wg.Add(1)
				go func(w int) {
					defer wg.Done()
					for seq := 0; seq < c.PerWriter; seq++ {
						if atomic.LoadInt32(&s.ending) != 0 {
							return
						}
						n := c.OutSizes[(w*5+seq)%len(c.OutSizes)]
						mt := websocket.BinaryMessage
						if err := wc.WriteMessage(mt, outPayload(w, seq, n)); err == nil {
							if atomic.LoadInt32(&s.ending) == 0 {
								atomic.StoreInt32(&s.wrote[w][seq], 1)
							}
						} else {
							return
						}
						if c.WritePaceUs > 0 {
							time.Sleep(time.Duration(c.WritePaceUs+(w*7+seq*3)%c.WritePaceUs) * time.Microsecond)
						}
					}
				}(w)
			}
			go func() { wg.Wait(); close(s.wdone) }()
		})
	}
	if c.Writers == 0 {
		close(s.wdone)
	}
	u.OnOpen(func(wc *websocket.Conn) {
		s.log.add(event{k: "open-start"})
		s.conn.Store(wc)
		if c.OpenUs > 0 {
			time.Sleep(time.Duration(c.OpenUs) * time.Microsecond)
		}
		if c.WriteFrom == "open" && c.Writers > 0 {
			startWriters(wc)
		}
		s.log.add(event{k: "open-end"})
	})
	u.OnMessage(func(wc *websocket.Conn, mt websocket.MessageType, data []byte) {
		if atomic.AddInt32(&s.log.inflight, 1) != 1 {
			atomic.StoreInt32(&s.log.overlap, 1)
		}
		e := event{k: "msg-start", seq: -1}
		if len(data) >= 8 {
			e.seq = int(binary.BigEndian.Uint32(data[0:4]))
			n := int(binary.BigEndian.Uint32(data[4:8]))
			want := inPayload(e.seq, n)
			if len(want) != len(data) || string(want) != string(data) {
				e.bad = fmt.Sprintf("incoming message %d: delivered %d bytes, content differs from what was sent (%d bytes)", e.seq, len(data), len(want))
			}
		} else {
			e.bad = fmt.Sprintf("delivered message of %d bytes that was never sent", len(data))
		}
		s.log.add(e)
		if c.WriteFrom == "first-message" && c.Writers > 0 {
			startWriters(wc)
		}
		hu := c.HandlerUs
		if hu <= 0 {
			hu = 50
		}
		time.Sleep(time.Duration(hu) * time.Microsecond)
		if c.Ending == "server-close-mid-handler" && e.seq == len(c.InSizes) {
			// the trigger message of this ending: the handler is still running while another goroutine of the
			// application closes the connection
			time.Sleep(60 * time.Millisecond)
		}
		if c.Ending == "client-reset" && e.seq == len(c.InSizes) {
			// the trigger message of the "client-reset" ending: a long-running handler that keeps writing
			// while the client resets the connection, so that the server's writes fail under its feet
			for i := 0; i < 60; i++ {
				_ = wc.WriteMessage(websocket.PongMessage, make([]byte, 100))
				time.Sleep(time.Millisecond)
			}
		}
		s.log.add(event{k: "msg-end", seq: e.seq})
		atomic.AddInt32(&s.log.inflight, -1)
	})
	u.OnClose(func(wc *websocket.Conn, err error) {
		if atomic.LoadInt32(&s.log.inflight) != 0 {
			atomic.StoreInt32(&s.log.overlapKind, 1)
		}
		s.log.add(event{k: "close"})
	})
	if c.CtlEvery > 0 {
		ctl := func(kind string) func(*websocket.Conn, string) {
			return func(wc *websocket.Conn, data string) {
				if atomic.AddInt32(&s.log.inflight, 1) != 1 {
					atomic.StoreInt32(&s.log.overlap, 1)
					atomic.StoreInt32(&s.log.overlapKind, 2)
				}
				s.log.add(event{k: kind + "-start"})
				time.Sleep(100 * time.Microsecond)
				if kind == "ping" {
					_ = wc.WriteMessage(websocket.PongMessage, []byte(data))
				}
				s.log.add(event{k: kind + "-end"})
				atomic.AddInt32(&s.log.inflight, -1)
			}
		}
		u.SetPingHandler(ctl("ping"))
		u.SetPongHandler(ctl("pong"))
	}
	transfer := c.Path == "blocking-transfer" || c.Path == "std-transfer"
	handler := http.HandlerFunc(func(w http.ResponseWriter, r *http.Request) {
		var err error
		if c.Path == "std-handleread" {
			// the application starts the read loop itself, with a buffer size of its choice
			var wc *websocket.Conn
			if wc, err = u.UpgradeWithoutHandlingReadForConnFromSTDServer(w, r, nil); err == nil {
				go wc.HandleRead(509)
			}
		} else if transfer {
			_, err = u.UpgradeAndTransferConnToPoller(w, r, nil)
		} else {
			_, err = u.Upgrade(w, r, nil)
		}
		if err != nil {
			s.log.add(event{k: "upgrade-error", bad: err.Error()})
		}
	})
	conf := nbhttp.Config{Network: "tcp", NPoller: 2, MaxWebsocketFramePayloadSize: c.FrameLimit, Handler: handler}
	vlib.ApplyHTTPMode(&conf, c.Mode)
	conf.AsyncReadInPoller = c.AsyncRead && c.Mode != vlib.ModeLT
	switch c.Path {
	case "nb":
		conf.Addrs = []string{"127.0.0.1:0"}
		conf.IOMod = nbhttp.IOModNonBlocking
	case "blocking-parser", "blocking-transfer":
		conf.Addrs = []string{"127.0.0.1:0"}
		conf.IOMod = nbhttp.IOModBlocking
	}
	engine := nbhttp.NewEngine(conf)
	u.Engine = engine
	if err := engine.Start(); err != nil {
		return nil, err
	}
	switch c.Path {
	case "std-readloop", "std-transfer", "std-handleread":
		ln, err := net.Listen("tcp", "127.0.0.1:0")
		if err != nil {
			engine.Stop()
			return nil, err
		}
		srv := &http.Server{Handler: handler}
		go srv.Serve(ln)
		s.addr = ln.Addr().String()
		s.stop = func() { srv.Close(); vlib.StopEngine(engine.Stop, 10*time.Second) }
	default:
		s.addr = engine.Addrs[0]
		s.stop = func() { vlib.StopEngine(engine.Stop, 10*time.Second) }
	}
	return s, nil
}

func runCase(c Case) vlib.Result {
	defer vlib.Yield(c.YieldPerMille, 0x5eed)()
	res := vlib.Result{Classes: []string{fmt.Sprintf("cell=%s/async=%v/%s", c.Path, c.AsyncWrite, c.Mode), "ending=" + c.Ending}}
	vlib.Logs.Take()
	s, err := startServer(c)
	if err != nil {
		return vlib.Fail("harness: server start: %v", err)
	}
	defer s.stop()
	conn, err := net.DialTimeout("tcp", s.addr, 3*time.Second)
	if err != nil {
		return vlib.Fail("harness: dial: %v", err)
	}
	defer conn.Close()
	cl, err := vlib.WSHandshake(conn, "/ws", false)
	if err != nil {
		res.Err = fmt.Errorf("websocket handshake failed on path %s: %v", c.Path, err)
		return res
	}

	// reader: reassemble what the server writes
	type got struct{ w, seq int }
	var rmu sync.Mutex
	var received []got
	var framesSeen int64
	var wireErr string
	readerDone := make(chan struct{})
	go func() {
		defer close(readerDone)
		var asm []byte
		inMsg := false
		setErr := func(f string, a ...any) {
			rmu.Lock()
			if wireErr == "" {
				wireErr = fmt.Sprintf(f, a...)
			}
			rmu.Unlock()
		}
		for {
			_ = conn.SetReadDeadline(time.Now().Add(15 * time.Second))
			f, err := cl.ReadFrame()
			if err != nil {
				return
			}
			if f.Masked || f.R1 || f.R2 || f.R3 {
				setErr("server frame with mask/RSV bits set")
				return
			}
			if f.Op >= 8 {
				if f.Op == vlib.OpClose {
					return
				}
				continue
			}
			if !inMsg {
				if f.Op == vlib.OpCont {
					setErr("continuation frame without a start (frames of two messages interleaved?)")
					return
				}
				inMsg = true
				asm = asm[:0]
			} else if f.Op != vlib.OpCont {
				setErr("data frame with opcode %d inside a fragmented message (frames of two messages interleaved)", f.Op)
				return
			}
			if len(f.Payload) > c.FrameLimit {
				setErr("frame payload %d exceeds the frame limit %d", len(f.Payload), c.FrameLimit)
				return
			}
			asm = append(asm, f.Payload...)
			atomic.AddInt64(&framesSeen, 1)
			if f.Fin {
				inMsg = false
				if len(asm) < frameHdr {
					setErr("message of %d bytes that no writer sent", len(asm))
					return
				}
				w, seq, n := int(binary.BigEndian.Uint32(asm[0:4])), int(binary.BigEndian.Uint32(asm[4:8])), int(binary.BigEndian.Uint32(asm[8:12]))
				if w >= c.Writers || seq >= c.PerWriter {
					setErr("message claims writer %d seq %d which does not exist (corrupted header)", w, seq)
					return
				}
				want := outPayload(w, seq, n)
				if len(want) != len(asm) || string(want) != string(asm) {
					setErr("message writer %d seq %d: %d bytes received, %d sent, or content differs (fragments of different messages mixed?)", w, seq, len(asm), len(want))
					return
				}
				rmu.Lock()
				received = append(received, got{w, seq})
				rmu.Unlock()
			}
		}
	}()

	// send the incoming messages
	sent := 0
	for i, n := range c.InSizes {
		if err := cl.WriteMessage(vlib.OpBin, inPayload(i, n)); err != nil {
			break
		}
		sent++
		if c.CtlEvery > 0 && (i+1)%c.CtlEvery == 0 {
			_ = cl.WriteMessage(vlib.OpPing, []byte(fmt.Sprintf("p%d", i)))
			_ = cl.WriteMessage(vlib.OpPong, []byte(fmt.Sprintf("q%d", i)))
		}
		if c.InPaceUs > 0 {
			time.Sleep(time.Duration(c.InPaceUs) * time.Microsecond)
		}
	}
	// let the server side work: wait until all incoming messages were handled and the writers are done
	vlib.WaitUntil(10*time.Second, func() bool {
		s.log.mu.Lock()
		n := 0
		for _, e := range s.log.ev {
			if e.k == "msg-end" {
				n++
			}
		}
		s.log.mu.Unlock()
		return n >= sent
	})
	if c.WriteFrom == "first-message" && sent == 0 {
		// writers never started
	} else if c.Writers > 0 {
		wdone := func() bool {
			select {
			case <-s.wdone:
				return true
			default:
				return false
			}
		}
		if !vlib.WaitProgress(20*time.Second, wdone, func() int64 { return atomic.LoadInt64(&framesSeen) }) {
			res.Err = fmt.Errorf("the server-side writers did not finish and no frame has reached the client for 20 s (a WriteMessage call is stuck)")
			return res
		}
	}
	// wait until the client has received everything that was successfully written
	expectOut := 0
	for w := range s.wrote {
		for seq := range s.wrote[w] {
			if atomic.LoadInt32(&s.wrote[w][seq]) == 1 {
				expectOut++
			}
		}
	}
	// (a slow transfer is not a lost message: give up only when no frame has arrived for 10 s)
	vlib.WaitProgress(10*time.Second, func() bool {
		rmu.Lock()
		defer rmu.Unlock()
		return len(received) >= expectOut || wireErr != ""
	}, func() int64 { return atomic.LoadInt64(&framesSeen) })
	// the client sees the 101 response before the server side has necessarily run its open callback
	// (it runs after the response was written): the ending below must not overtake it
	vlib.WaitUntil(5*time.Second, func() bool {
		s.log.mu.Lock()
		defer s.log.mu.Unlock()
		for _, e := range s.log.ev {
			if e.k == "open-end" {
				return true
			}
		}
		return false
	})
	atomic.StoreInt32(&s.ending, 1)
	switch c.Ending {
	case "client-close":
		_ = cl.WriteMessage(vlib.OpClose, []byte{0x03, 0xE8})
	case "client-cut":
		// half a frame, then the socket is cut
		f := vlib.WSFrame{Fin: true, Op: vlib.OpBin, Masked: true, Key: 1, Payload: inPayload(9999, 5000)}
		b := f.Encode()
		_, _ = conn.Write(b[:len(b)/2])
		_ = conn.Close()
	case "server-close":
		if wc := s.conn.Load(); wc != nil {
			_ = wc.Close()
		}
	case "server-close-mid-handler":
		// one more message whose handler runs for >= 60 ms; once it has started, another goroutine of the
		// application closes the connection
		trig := len(c.InSizes)
		if err := cl.WriteMessage(vlib.OpBin, inPayload(trig, 64)); err == nil {
			sent++
			vlib.WaitUntil(5*time.Second, func() bool {
				s.log.mu.Lock()
				defer s.log.mu.Unlock()
				for _, e := range s.log.ev {
					if e.k == "msg-start" && e.seq == trig {
						return true
					}
				}
				return false
			})
		}
		if wc := s.conn.Load(); wc != nil {
			_ = wc.Close()
		}
	case "client-reset":
		// one more message whose handler runs for >= 60 ms and keeps writing; once it has started, the
		// client resets the connection (RST), so the server-side writes fail while the handler runs
		trig := len(c.InSizes)
		if err := cl.WriteMessage(vlib.OpBin, inPayload(trig, 64)); err == nil {
			sent++
			vlib.WaitUntil(5*time.Second, func() bool {
				s.log.mu.Lock()
				defer s.log.mu.Unlock()
				for _, e := range s.log.ev {
					if e.k == "msg-start" && e.seq == trig {
						return true
					}
				}
				return false
			})
		}
		if tc, ok := conn.(*net.TCPConn); ok {
			_ = tc.SetLinger(0)
		}
		_ = conn.Close()
	}
	closedSeen := vlib.WaitUntil(5*time.Second, func() bool {
		s.log.mu.Lock()
		defer s.log.mu.Unlock()
		for _, e := range s.log.ev {
			if e.k == "close" {
				return true
			}
		}
		return false
	})
	_ = conn.Close()
	<-readerDone
	time.Sleep(100 * time.Millisecond) // late callbacks would show up now

	// ----- evaluate the callback log -----
	s.log.mu.Lock()
	ev := append([]event(nil), s.log.ev...)
	s.log.mu.Unlock()
	if atomic.LoadInt32(&s.log.overlap) != 0 {
		if atomic.LoadInt32(&s.log.overlapKind) == 2 {
			res.Err = fmt.Errorf("a ping/pong handler of the connection ran at the same time as another callback of the same connection")
		} else {
			res.Err = fmt.Errorf("two message callbacks of the connection ran at the same time")
		}
		return res
	}
	if c.CtlEvery > 0 {
		res.Classes = append(res.Classes, "ping-pong-handlers")
	}
	openEnd, firstMsg, closeIdx, closes := -1, -1, -1, 0
	nextIn := 0
	for i, e := range ev {
		if e.bad != "" {
			res.Err = fmt.Errorf("%s", e.bad)
			return res
		}
		switch e.k {
		case "open-end":
			openEnd = i
		case "msg-start":
			if firstMsg < 0 {
				firstMsg = i
			}
			if e.seq != nextIn {
				res.Err = fmt.Errorf("message callback for incoming message %d where %d was expected (lost, duplicated or out of wire order)", e.seq, nextIn)
				return res
			}
			nextIn++
			if closeIdx >= 0 {
				res.Err = fmt.Errorf("a message callback ran after the close callback")
				return res
			}
		case "msg-end":
			if closeIdx >= 0 {
				res.Err = fmt.Errorf("a message callback was still running when the close callback ran")
				return res
			}
		case "close":
			closes++
			if closeIdx < 0 {
				closeIdx = i
			}
		}
	}
	if openEnd < 0 {
		res.Err = fmt.Errorf("the open callback never completed; log %v", ev)
		return res
	}
	if firstMsg >= 0 && firstMsg < openEnd {
		res.Err = fmt.Errorf("a message callback started before the open callback had returned (path %s)", c.Path)
		return res
	}
	if nextIn < sent {
		res.Err = fmt.Errorf("%d messages were sent by the client, only %d message callbacks ran (10 s)", sent, nextIn)
		return res
	}
	if !closedSeen || closes == 0 {
		res.Err = fmt.Errorf("no close callback within 5 s after the ending %q (path %s, async=%v)", c.Ending, c.Path, c.AsyncWrite)
		return res
	}
	if closes != 1 {
		res.Err = fmt.Errorf("%d close callbacks", closes)
		return res
	}
	// ----- evaluate the wire -----
	rmu.Lock()
	defer rmu.Unlock()
	if wireErr != "" {
		res.Err = fmt.Errorf("wire: %s", wireErr)
		return res
	}
	seen := map[got]int{}
	lastSeq := map[int]int{}
	for _, g := range received {
		seen[g]++
		if seen[g] > 1 {
			res.Err = fmt.Errorf("message writer %d seq %d arrived twice", g.w, g.seq)
			return res
		}
		if last, ok := lastSeq[g.w]; ok && g.seq < last {
			res.Err = fmt.Errorf("writer %d: message %d arrived after message %d (per-writer order not preserved)", g.w, g.seq, last)
			return res
		}
		lastSeq[g.w] = g.seq
	}
	for w := range s.wrote {
		for seq := range s.wrote[w] {
			if atomic.LoadInt32(&s.wrote[w][seq]) == 1 && seen[got{w, seq}] == 0 {
				res.Err = fmt.Errorf("WriteMessage of writer %d seq %d returned nil while the connection was healthy, but the message never reached the client (%d of %d arrived)", w, seq, len(received), expectOut)
				return res
			}
		}
	}
	frag := false
	for _, n := range c.OutSizes {
		if n > c.FrameLimit {
			frag = true
		}
	}
	res.NonTrivial = (c.Writers >= 2 && frag) || sent >= 2
	return res
}

var paths = []string{"nb", "blocking-parser", "std-readloop", "blocking-transfer", "std-transfer", "std-handleread"}

func cells() []Case {
	var out []Case
	for _, p := range paths {
		for _, aw := range []bool{false, true} {
			for _, m := range vlib.Modes {
				out = append(out, Case{Path: p, AsyncWrite: aw, Mode: m, FrameLimit: 1000, OpenUs: 2000, InSizes: []int{8, 5000, 100, 70000, 8}, Writers: 4, PerWriter: 12,
					OutSizes: []int{12, 999, 1000, 1001, 2500, 12000}, WriteFrom: "open", Ending: "client-close"})
				out = append(out, Case{Path: p, AsyncWrite: aw, Mode: m, FrameLimit: 1000, OpenUs: 100, InSizes: []int{8, 100}, Writers: 1, PerWriter: 3,
					OutSizes: []int{12, 2500}, WriteFrom: "open", Ending: "client-reset"})
				out = append(out, Case{Path: p, AsyncWrite: aw, Mode: m, FrameLimit: 1000, OpenUs: 100, InSizes: []int{8, 100}, Writers: 0, PerWriter: 1,
					OutSizes: []int{12}, WriteFrom: "open", Ending: "server-close-mid-handler", AsyncRead: aw})
				out = append(out, Case{Path: p, AsyncWrite: aw, Mode: m, FrameLimit: 1000, OpenUs: 100, InSizes: []int{8, 100, 8, 5000, 8, 8}, Writers: 0, PerWriter: 1,
					OutSizes: []int{12}, WriteFrom: "open", Ending: "client-close", CtlEvery: 1, HandlerUs: 3000})
			}
		}
	}
	return out
}

func gen(t *rapid.T) Case {
	c := Case{Path: rapid.SampledFrom(paths).Draw(t, "path"), AsyncWrite: rapid.Bool().Draw(t, "asyncwrite"), Mode: rapid.SampledFrom(vlib.Modes).Draw(t, "mode")}
	c.FrameLimit = rapid.SampledFrom([]int{100, 1000, 4096, 32768}).Draw(t, "framelimit")
	c.OpenUs = rapid.SampledFrom([]int{0, 100, 1000, 3000}).Draw(t, "openus")
	n := rapid.IntRange(0, 30).Draw(t, "nin")
	if rapid.IntRange(0, 5).Draw(t, "burst") == 0 {
		// a long burst of small messages behind slow handlers: one run of the connection's job queue takes
		// many jobs (sizes at and around powers of two and their multiples: internal batch / compaction bounds)
		k := rapid.SampledFrom([]int{32, 64, 128, 256}).Draw(t, "burstbase")
		n = k*rapid.IntRange(1, 2).Draw(t, "burstmul") + rapid.IntRange(-1, 2).Draw(t, "burstdelta")
		for i := 0; i < n; i++ {
			c.InSizes = append(c.InSizes, 8)
		}
		c.HandlerUs = rapid.SampledFrom([]int{50, 300}).Draw(t, "bursthandler")
		n = 0
		if rapid.Bool().Draw(t, "steady") {
			// steady state instead of one burst: messages arrive about as fast as they are handled, so the run
			// of the job queue goes on and on while the queue mostly holds just the running job
			c.HandlerUs = 300
			c.InPaceUs = rapid.SampledFrom([]int{200, 300, 400}).Draw(t, "steadypace")
		}
	}
	for i := 0; i < n; i++ {
		c.InSizes = append(c.InSizes, rapid.SampledFrom([]int{8, 9, 100, 125, 126, 4000, 65535, 65536, 70000}).Draw(t, "insize"))
	}
	if pace := rapid.SampledFrom([]int{0, 0, 50, 1000}).Draw(t, "pace"); c.InPaceUs == 0 {
		c.InPaceUs = pace
	}
	c.Writers = rapid.SampledFrom([]int{0, 1, 2, 4, 8}).Draw(t, "writers")
	c.PerWriter = rapid.IntRange(1, 40).Draw(t, "perwriter")
	k := rapid.IntRange(1, 4).Draw(t, "noutsizes")
	for i := 0; i < k; i++ {
		c.OutSizes = append(c.OutSizes, rapid.SampledFrom([]int{12, c.FrameLimit - 1, c.FrameLimit, c.FrameLimit + 1, 2*c.FrameLimit + 1, 5 * c.FrameLimit, 70000}).Draw(t, "outsize"))
	}
	c.WriteFrom = rapid.SampledFrom([]string{"open", "first-message"}).Draw(t, "writefrom")
	c.WritePaceUs = rapid.SampledFrom([]int{0, 0, 20, 100}).Draw(t, "writepace")
	c.Ending = rapid.SampledFrom([]string{"client-close", "client-cut", "server-close", "client-reset", "server-close-mid-handler"}).Draw(t, "ending")
	c.AsyncRead = rapid.Bool().Draw(t, "asyncread")
	if rapid.IntRange(0, 2).Draw(t, "ctl") == 0 {
		c.CtlEvery = rapid.SampledFrom([]int{1, 2, 5}).Draw(t, "ctlevery")
		if len(c.InSizes) <= 30 {
			c.HandlerUs = rapid.SampledFrom([]int{50, 500, 3000}).Draw(t, "handlerus")
		}
	}
	if vlib.YieldAvailable {
		c.YieldPerMille = rapid.SampledFrom([]int{0, 0, 20, 100, 300}).Draw(t, "yield")
		// affordable: heavy perturbation of a session with several hundred thousand frames takes minutes
		frames := 0
		for _, n := range c.OutSizes {
			frames += n/c.FrameLimit + 1
		}
		if len(c.OutSizes) > 0 && frames/len(c.OutSizes)*c.Writers*c.PerWriter > 40000 && c.YieldPerMille > 20 {
			c.YieldPerMille = 20
		}
	}
	return c
}

func TestCheck(t *testing.T) {
	r := vlib.NewRunner(t, "C14")
	vlib.RunCases(r, "cells", cells(), runCase, true)
	r.MarkExhaustive("matrix cells upgrade path x send mode x epoll mode (36 cells, four fixed workloads each: application close from another goroutine while a handler runs (with asynchronous reading in half of the cells), orderly close, client reset while a handler runs and writes, pings and pongs behind every message with slow handlers)")
	vlib.RunCheck(r, vlib.Check[Case]{Name: "sessions", N: r.Pick(900, 12000), Gen: gen, Run: runCase, Confirm: true, RecordCurrent: true})
	vlib.RunCases(r, "glued-handshake", gluedCells(), runGlued, true)
	vlib.RunCases(r, "client-dial-cells", clientCells(), runClientCase, true)
	vlib.RunCheck(r, vlib.Check[ClientCase]{Name: "client-dial", N: r.Pick(300, 6000), Gen: genClientCase, Run: runClientCase, Confirm: true, RecordCurrent: true})
	r.Finish()
}

// GluedCase: the client does not wait for the 101 response: the upgrade request and the first frames travel in
// the same segment, so the read that performs the upgrade also carries WebSocket input - valid messages, or a
// frame that makes the new connection fail at once. Whatever the path does with that input: if the open callback
// ran, the close callback runs exactly once, and no message callback runs before the open or after the close one.
type GluedCase struct {
	Path  string `json:"path"`
	Mode  string `json:"mode"`
	Valid int    `json:"valid_messages"`  // valid 8-byte messages glued behind the request
	Bad   bool   `json:"bad_frame_after"` // followed by a frame with a reserved opcode
}

func runGlued(c GluedCase) vlib.Result {
	res := vlib.Result{Classes: []string{"glued-handshake", "path=" + c.Path}}
	vlib.Logs.Take()
	s, err := startServer(Case{Path: c.Path, Mode: c.Mode, FrameLimit: 4096, OutSizes: []int{12}, PerWriter: 1})
	if err != nil {
		return vlib.Fail("harness: server start: %v", err)
	}
	defer s.stop()
	conn, err := net.DialTimeout("tcp", s.addr, 3*time.Second)
	if err != nil {
		return vlib.Fail("harness: dial: %v", err)
	}
	defer conn.Close()
	wire := []byte("GET /ws HTTP/1.1\r\nHost: verif.local\r\nUpgrade: websocket\r\nConnection: Upgrade\r\nSec-WebSocket-Key: dGhlIHNhbXBsZSBub25jZQ==\r\nSec-WebSocket-Version: 13\r\n\r\n")
	for i := 0; i < c.Valid; i++ {
		wire = append(wire, vlib.WSFrame{Fin: true, Op: vlib.OpBin, Masked: true, Key: uint32(i + 1), Payload: inPayload(i, 8)}.Encode()...)
	}
	if c.Bad {
		wire = append(wire, vlib.WSFrame{Fin: true, Op: 3, Masked: true, Key: 99, Payload: []byte("reserved opcode")}.Encode()...)
	}
	if _, err := conn.Write(wire); err != nil {
		return vlib.Fail("harness: write: %v", err)
	}
	// read until the server closes (bad frame) or everything was handled
	go func() {
		buf := make([]byte, 4096)
		for {
			_ = conn.SetReadDeadline(time.Now().Add(8 * time.Second))
			if _, err := conn.Read(buf); err != nil {
				return
			}
		}
	}()
	count := func(k string) int {
		s.log.mu.Lock()
		defer s.log.mu.Unlock()
		n := 0
		for _, e := range s.log.ev {
			if e.k == k {
				n++
			}
		}
		return n
	}
	vlib.WaitUntil(3*time.Second, func() bool { return count("open-end") > 0 })
	if count("open-end") == 0 {
		// the upgrade itself was refused (a path may refuse input behind the request): nothing was opened
		res.Classes = append(res.Classes, "not-upgraded (nothing asserted)")
		return res
	}
	// RFC 6455 4.1 makes a client wait for the 101 before it sends frames, so what a path does with the glued
	// input (deliver it, fail on it, lose it in the HTTP server's read buffer) is not asserted. What is: a
	// connection whose open callback ran gets its close callback, exactly once, when it ends - and the client
	// ends it now at the latest.
	vlib.WaitUntil(300*time.Millisecond, func() bool { return count("close") > 0 || count("msg-end") >= c.Valid && !c.Bad })
	_ = conn.Close()
	if !vlib.WaitUntil(5*time.Second, func() bool { return count("close") > 0 }) {
		res.Err = fmt.Errorf("path %s: the open callback ran and the connection has ended (input glued to the handshake: %d valid messages, bad frame %v), but no close callback within 5 s", c.Path, c.Valid, c.Bad)
		return res
	}
	time.Sleep(50 * time.Millisecond)
	if n := count("close"); n != 1 {
		res.Err = fmt.Errorf("path %s: %d close callbacks", c.Path, n)
		return res
	}
	s.log.mu.Lock()
	defer s.log.mu.Unlock()
	openEnd, closeAt := -1, -1
	for i, e := range s.log.ev {
		switch e.k {
		case "open-end":
			openEnd = i
		case "msg-start":
			if openEnd < 0 {
				res.Err = fmt.Errorf("path %s: a message callback started before the open callback had returned", c.Path)
				return res
			}
			if closeAt >= 0 {
				res.Err = fmt.Errorf("path %s: a message callback ran after the close callback", c.Path)
				return res
			}
		case "close":
			closeAt = i
		}
	}
	res.NonTrivial = true
	return res
}

func gluedCells() []GluedCase {
	var out []GluedCase
	for _, p := range paths {
		for _, m := range vlib.Modes {
			out = append(out, GluedCase{Path: p, Mode: m, Valid: 0, Bad: true}, GluedCase{Path: p, Mode: m, Valid: 3, Bad: false}, GluedCase{Path: p, Mode: m, Valid: 2, Bad: true})
		}
	}
	return out
}
