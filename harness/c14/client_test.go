package c14

import (
	"bufio"
	"crypto/sha1"
	"encoding/base64"
	"fmt"
	"net"
	"net/http"
	"strings"
	"sync"
	"sync/atomic"
	"time"

	"verifharness/vlib"

	"github.com/lesismal/nbio/nbhttp"
	"github.com/lesismal/nbio/nbhttp/websocket"
	"pgregory.net/rapid"
)

// Client side: a connection made with websocket.Dialer. The server (hand-written, in the harness) speaks
// first: it sends messages in the same segment as its 101 response, or shortly after it, while the client's
// open callback is still running. The callbacks of the dialed connection obey the same order as on a server:
// the open callback has returned before the first message callback starts, message callbacks run one at a
// time and in the order the messages were sent, and the close callback runs exactly once, after them.
type ClientCase struct {
	Mode     string `json:"mode"`
	Glued    int    `json:"glued_messages"` // messages sent in the same write as the 101 response
	Later    int    `json:"later_messages"` // messages sent AfterMs later, one write each
	AfterMs  int    `json:"after_ms"`
	OpenMs   int    `json:"open_handler_ms"`
	HandleUs int    `json:"message_handler_us"`
	Ending   string `json:"ending"` // server-close-frame, server-drop, client-close
}

func acceptKey(key string) string {
	h := sha1.Sum([]byte(key + "258EAFA5-E914-47DA-95CA-C5AB0DC85B11"))
	return base64.StdEncoding.EncodeToString(h[:])
}

func runClientCase(c ClientCase) vlib.Result {
	res := vlib.Result{Classes: []string{"client-dial", "mode=" + c.Mode, "ending=" + c.Ending}}
	vlib.Logs.Take()
	ln, err := net.Listen("tcp", "127.0.0.1:0")
	if err != nil {
		return vlib.Fail("harness: listen: %v", err)
	}
	defer ln.Close()
	total := c.Glued + c.Later
	srvDone := make(chan struct{})
	var srvConn atomic.Pointer[net.Conn]
	go func() {
		defer close(srvDone)
		p, err := ln.Accept()
		if err != nil {
			return
		}
		srvConn.Store(&p)
		br := bufio.NewReader(p)
		_ = p.SetReadDeadline(time.Now().Add(20 * time.Second))
		req, err := http.ReadRequest(br)
		if err != nil {
			p.Close()
			return
		}
		wire := []byte("HTTP/1.1 101 Switching Protocols\r\nUpgrade: websocket\r\nConnection: Upgrade\r\nSec-WebSocket-Accept: " + acceptKey(req.Header.Get("Sec-WebSocket-Key")) + "\r\n\r\n")
		for i := 0; i < c.Glued; i++ {
			wire = append(wire, vlib.WSFrame{Fin: true, Op: vlib.OpBin, Payload: inPayload(i, 16)}.Encode()...)
		}
		_ = p.SetWriteDeadline(time.Now().Add(20 * time.Second))
		if _, err := p.Write(wire); err != nil {
			p.Close()
			return
		}
		if c.Later > 0 {
			time.Sleep(time.Duration(c.AfterMs) * time.Millisecond)
			for i := c.Glued; i < total; i++ {
				if _, err := p.Write(vlib.WSFrame{Fin: true, Op: vlib.OpBin, Payload: inPayload(i, 16)}.Encode()); err != nil {
					break
				}
			}
		}
		switch c.Ending {
		case "server-close-frame":
			_, _ = p.Write(vlib.WSFrame{Fin: true, Op: vlib.OpClose, Payload: []byte{0x03, 0xe8}}.Encode())
			// read until the client has answered / closed
			buf := make([]byte, 1024)
			_ = p.SetReadDeadline(time.Now().Add(3 * time.Second))
			for {
				if _, err := p.Read(buf); err != nil {
					break
				}
			}
			p.Close()
		case "server-drop":
			time.Sleep(2 * time.Millisecond)
			p.Close()
		default:
			// the client ends the session: keep reading until it does
			buf := make([]byte, 1024)
			_ = p.SetReadDeadline(time.Now().Add(15 * time.Second))
			for {
				if _, err := p.Read(buf); err != nil {
					break
				}
			}
			p.Close()
		}
	}()

	conf := nbhttp.Config{NPoller: 2}
	vlib.ApplyHTTPMode(&conf, c.Mode)
	engine := nbhttp.NewEngine(conf)
	if err := engine.Start(); err != nil {
		return vlib.Fail("harness: client engine start: %v", err)
	}
	defer vlib.StopEngine(engine.Stop, 10*time.Second)

	var mu sync.Mutex
	var log []string
	add := func(s string) { mu.Lock(); log = append(log, s); mu.Unlock() }
	var inFlight int32
	var overlap atomic.Value
	u := websocket.NewUpgrader()
	u.KeepaliveTime = 0
	u.OnOpen(func(wc *websocket.Conn) {
		if atomic.AddInt32(&inFlight, 1) != 1 {
			overlap.Store("the open callback ran while another callback of the connection was running")
		}
		add("open-begin")
		time.Sleep(time.Duration(c.OpenMs) * time.Millisecond)
		add("open-end")
		atomic.AddInt32(&inFlight, -1)
	})
	u.OnMessage(func(wc *websocket.Conn, mt websocket.MessageType, data []byte) {
		if atomic.AddInt32(&inFlight, 1) != 1 {
			overlap.Store("a message callback started while another callback of the connection (open or message) was still running")
		}
		seq := -1
		for i := 0; i < total; i++ {
			if string(data) == string(inPayload(i, 16)) {
				seq = i
			}
		}
		add(fmt.Sprintf("msg-start %d", seq))
		if c.HandleUs > 0 {
			time.Sleep(time.Duration(c.HandleUs) * time.Microsecond)
		}
		add(fmt.Sprintf("msg-end %d", seq))
		atomic.AddInt32(&inFlight, -1)
	})
	u.OnClose(func(wc *websocket.Conn, err error) {
		if atomic.AddInt32(&inFlight, 1) != 1 {
			overlap.Store("the close callback ran while a message or open callback of the connection was still running")
		}
		add("close")
		atomic.AddInt32(&inFlight, -1)
	})
	d := &websocket.Dialer{Engine: engine, Upgrader: u, DialTimeout: 20 * time.Second}
	wc, _, err := d.Dial("ws://"+ln.Addr().String()+"/ws", nil)
	if err != nil {
		res.Err = fmt.Errorf("Dialer.Dial to a server that answers 101 failed: %v", err)
		return res
	}
	count := func(prefix string) int {
		mu.Lock()
		defer mu.Unlock()
		n := 0
		for _, e := range log {
			if strings.HasPrefix(e, prefix) {
				n++
			}
		}
		return n
	}
	if c.Ending == "client-close" {
		// the application waits for everything, then closes
		vlib.WaitUntil(20*time.Second+time.Duration(c.OpenMs+c.AfterMs)*time.Millisecond, func() bool { return count("msg-end") >= total })
		_ = wc.Close()
	}
	if !vlib.WaitUntil(8*time.Second, func() bool { return count("close") > 0 }) {
		mu.Lock()
		l := strings.Join(log, ", ")
		mu.Unlock()
		res.Err = fmt.Errorf("the dialed connection has ended (%s) but its close callback did not run within 8 s; callbacks so far: %s", c.Ending, l)
		return res
	}
	time.Sleep(30 * time.Millisecond)
	if p := srvConn.Load(); p != nil {
		(*p).Close()
	}
	<-srvDone
	mu.Lock()
	defer mu.Unlock()
	if v := overlap.Load(); v != nil {
		res.Err = fmt.Errorf("%s; callbacks: %s", v.(string), strings.Join(log, ", "))
		return res
	}
	openEnd, closeAt, next, opens, closes := -1, -1, 0, 0, 0
	for i, e := range log {
		switch {
		case e == "open-begin":
			opens++
		case e == "open-end":
			openEnd = i
		case e == "close":
			closes++
			closeAt = i
		case strings.HasPrefix(e, "msg-start"):
			if openEnd < 0 {
				res.Err = fmt.Errorf("a message callback started before the open callback had returned; callbacks: %s", strings.Join(log, ", "))
				return res
			}
			if closeAt >= 0 {
				res.Err = fmt.Errorf("a message callback ran after the close callback; callbacks: %s", strings.Join(log, ", "))
				return res
			}
			if e != fmt.Sprintf("msg-start %d", next) {
				res.Err = fmt.Errorf("message callbacks out of order or with altered data: got %q, want message %d; callbacks: %s", e, next, strings.Join(log, ", "))
				return res
			}
			next++
		}
	}
	if opens != 1 || closes != 1 {
		res.Err = fmt.Errorf("%d open and %d close callbacks on one dialed connection; callbacks: %s", opens, closes, strings.Join(log, ", "))
		return res
	}
	if c.Ending != "server-drop" && next != total {
		// everything the server sent before its close frame (or before the application closed, which waited
		// for it) is delivered
		res.Err = fmt.Errorf("the server sent %d messages (%d with the 101 response) before the session ended orderly, %d message callbacks ran; callbacks: %s", total, c.Glued, next, strings.Join(log, ", "))
		return res
	}
	res.NonTrivial = total > 0 && c.OpenMs > 0
	if c.Glued > 0 {
		res.Classes = append(res.Classes, "messages glued to the 101 response")
	}
	return res
}

func clientCells() []ClientCase {
	var out []ClientCase
	for _, m := range vlib.Modes {
		for _, e := range []string{"server-close-frame", "server-drop", "client-close"} {
			out = append(out, ClientCase{Mode: m, Glued: 2, Later: 0, OpenMs: 50, Ending: e})
			out = append(out, ClientCase{Mode: m, Glued: 0, Later: 3, AfterMs: 10, OpenMs: 80, HandleUs: 500, Ending: e})
		}
	}
	return out
}

func genClientCase(t *rapid.T) ClientCase {
	c := ClientCase{Mode: rapid.SampledFrom(vlib.Modes).Draw(t, "mode")}
	c.Glued = rapid.SampledFrom([]int{0, 0, 1, 3}).Draw(t, "glued")
	c.Later = rapid.SampledFrom([]int{0, 1, 4}).Draw(t, "later")
	c.AfterMs = rapid.SampledFrom([]int{0, 1, 10, 40}).Draw(t, "afterms")
	c.OpenMs = rapid.SampledFrom([]int{0, 5, 30, 100}).Draw(t, "openms")
	c.HandleUs = rapid.SampledFrom([]int{0, 100, 3000}).Draw(t, "handleus")
	c.Ending = rapid.SampledFrom([]string{"server-close-frame", "server-drop", "client-close"}).Draw(t, "ending")
	return c
}
