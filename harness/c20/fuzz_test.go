package c20

import (
	"testing"

	"verifharness/vlib"
)

// Coverage-guided search over the allocator operation-sequence generator's choices (thorough tier).
func FuzzSeq(f *testing.F) {
	vlib.FuzzGenerated(f, "C20", "seq", genCase(false), runCase)
}
