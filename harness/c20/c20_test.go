package c20

import (
	"fmt"
	"sort"
	"sync"
	"testing"
	"unsafe"

	"verifharness/vlib"

	"github.com/lesismal/nbio/mempool"
	"pgregory.net/rapid"
)

type Op struct {
	K string `json:"k"` // malloc, append, appendstr, realloc, free
	I int    `json:"i"` // buffer selector (mod number of live buffers)
	N int    `json:"n"` // size
}

type Case struct {
	Alloc    string `json:"alloc"` // pool, aligned, std
	BufSize  int    `json:"buf_size,omitempty"`
	FreeSize int    `json:"free_size,omitempty"`
	Threads  [][]Op `json:"threads"` // 1 thread = sequential
}

func genSize(t *rapid.T, label string) int {
	switch rapid.IntRange(0, 9).Draw(t, label+"_cls") {
	case 0:
		return 0
	case 1:
		return 1
	case 2, 3, 4, 5:
		k := rapid.IntRange(1, 17).Draw(t, label+"_k")
		return (1 << k) + rapid.IntRange(-1, 1).Draw(t, label+"_d")
	case 6:
		return rapid.IntRange(0, 200).Draw(t, label+"_small")
	case 7:
		return rapid.IntRange(0, 5000).Draw(t, label+"_mid")
	default:
		return rapid.IntRange(0, 140000).Draw(t, label+"_any")
	}
}

func genOps(t *rapid.T, label string, maxOps int) []Op {
	n := rapid.IntRange(1, maxOps).Draw(t, label+"_n")
	ops := make([]Op, 0, n)
	for j := 0; j < n; j++ {
		k := rapid.SampledFrom([]string{"malloc", "malloc", "append", "append", "appendstr", "realloc", "realloc", "free", "free"}).Draw(t, "k")
		op := Op{K: k, I: rapid.IntRange(0, 7).Draw(t, "i")}
		if k != "free" {
			op.N = genSize(t, "n")
		}
		ops = append(ops, op)
	}
	return ops
}

func genCase(concurrent bool) func(t *rapid.T) Case {
	return func(t *rapid.T) Case {
		c := Case{Alloc: rapid.SampledFrom([]string{"pool", "pool", "aligned", "aligned", "std"}).Draw(t, "alloc")}
		if c.Alloc == "pool" {
			c.BufSize = rapid.SampledFrom([]int{1, 2, 7, 16, 64, 100, 1024}).Draw(t, "bufsize")
			c.FreeSize = rapid.SampledFrom([]int{0, 1, 64, 100, 1024, 4096, 65536, 1 << 30}).Draw(t, "freesize")
		}
		nt := 1
		maxOps := 40
		if concurrent {
			nt = rapid.IntRange(2, 8).Draw(t, "threads")
			maxOps = 25
		}
		for i := 0; i < nt; i++ {
			c.Threads = append(c.Threads, genOps(t, fmt.Sprintf("t%d", i), maxOps))
		}
		return c
	}
}

type live struct {
	p     *[]byte
	model []byte
}

func pat(id, pos int) byte { return byte(id*131 + pos*7 + (pos >> 8) + 1) }

func newAlloc(c Case) mempool.Allocator {
	switch c.Alloc {
	case "pool":
		return mempool.New(c.BufSize, c.FreeSize)
	case "aligned":
		return mempool.NewAligned()
	default:
		return mempool.NewSTD()
	}
}

type thread struct {
	id      int
	bufs    []*live
	nextID  int
	freed   bool // a Free happened and another buffer was live
	nontriv bool
}

func (th *thread) fill(l *live, from int) {
	// bytes from 'from' on have unspecified content: the harness fills them with a unique pattern
	th.nextID++
	id := th.id*1000003 + th.nextID
	for i := from; i < len(*l.p); i++ {
		(*l.p)[i] = pat(id, i)
	}
	l.model = append(l.model[:from:from], (*l.p)[from:]...)
}

func (th *thread) verify(step int, op Op) error {
	for bi, l := range th.bufs {
		if l.p == nil {
			return fmt.Errorf("thread %d step %d %+v: buffer %d is nil", th.id, step, op, bi)
		}
		if len(*l.p) != len(l.model) {
			return fmt.Errorf("thread %d step %d %+v: live buffer %d has len %d, model %d", th.id, step, op, bi, len(*l.p), len(l.model))
		}
		for i := range l.model {
			if (*l.p)[i] != l.model[i] {
				return fmt.Errorf("thread %d step %d %+v: live buffer %d (len %d) content differs from model at offset %d: got %#x want %#x",
					th.id, step, op, bi, len(l.model), i, (*l.p)[i], l.model[i])
			}
		}
	}
	return nil
}

type span struct {
	lo, hi uintptr
	th, bi int
}

func disjoint(ths []*thread) error {
	var sp []span
	for _, th := range ths {
		for bi, l := range th.bufs {
			b := *l.p
			if cap(b) == 0 {
				continue
			}
			lo := uintptr(unsafe.Pointer(&b[:1][0]))
			sp = append(sp, span{lo, lo + uintptr(cap(b)), th.id, bi})
		}
	}
	sort.Slice(sp, func(i, j int) bool { return sp[i].lo < sp[j].lo })
	for i := 1; i < len(sp); i++ {
		if sp[i].lo < sp[i-1].hi {
			return fmt.Errorf("live buffers share memory: thread %d buffer %d [%#x,%#x) overlaps thread %d buffer %d [%#x,%#x)",
				sp[i-1].th, sp[i-1].bi, sp[i-1].lo, sp[i-1].hi, sp[i].th, sp[i].bi, sp[i].lo, sp[i].hi)
		}
	}
	return nil
}

func (th *thread) apply(a mempool.Allocator, step int, op Op) (err error) {
	defer func() {
		if r := recover(); r != nil {
			err = fmt.Errorf("thread %d step %d %+v: panic: %v", th.id, step, op, r)
		}
	}()
	if op.K != "malloc" && len(th.bufs) == 0 {
		op = Op{K: "malloc", N: op.N}
	}
	sel := 0
	if len(th.bufs) > 0 {
		sel = op.I % len(th.bufs)
	}
	switch op.K {
	case "malloc":
		if len(th.bufs) >= 8 {
			return nil
		}
		p := a.Malloc(op.N)
		if p == nil {
			return fmt.Errorf("thread %d step %d: Malloc(%d) returned nil", th.id, step, op.N)
		}
		if len(*p) != op.N {
			return fmt.Errorf("thread %d step %d: Malloc(%d) returned len %d", th.id, step, op.N, len(*p))
		}
		if th.freed && len(th.bufs) > 0 {
			th.nontriv = true
		}
		l := &live{p: p}
		th.fill(l, 0)
		th.bufs = append(th.bufs, l)
	case "append", "appendstr":
		l := th.bufs[sel]
		th.nextID++
		more := make([]byte, op.N)
		for i := range more {
			more[i] = pat(th.id*1000003+th.nextID, i)
		}
		var p *[]byte
		if op.K == "append" {
			p = a.Append(l.p, more...)
		} else {
			p = a.AppendString(l.p, string(more))
		}
		if p == nil {
			return fmt.Errorf("thread %d step %d: %s returned nil", th.id, step, op.K)
		}
		l.p = p
		l.model = append(l.model, more...)
		if th.freed && len(th.bufs) > 1 {
			th.nontriv = true
		}
	case "realloc":
		l := th.bufs[sel]
		old := len(l.model)
		p := a.Realloc(l.p, op.N)
		if p == nil {
			return fmt.Errorf("thread %d step %d: Realloc returned nil", th.id, step)
		}
		l.p = p
		if len(*p) != op.N {
			return fmt.Errorf("thread %d step %d: Realloc(len %d -> %d) returned len %d", th.id, step, old, op.N, len(*p))
		}
		keep := old
		if op.N < keep {
			keep = op.N
		}
		for i := 0; i < keep; i++ {
			if (*p)[i] != l.model[i] {
				return fmt.Errorf("thread %d step %d: Realloc(len %d -> %d) lost content at offset %d: got %#x want %#x", th.id, step, old, op.N, i, (*p)[i], l.model[i])
			}
		}
		l.model = l.model[:keep]
		th.fill(l, keep)
		if th.freed && len(th.bufs) > 1 && op.N > old {
			th.nontriv = true
		}
	case "free":
		l := th.bufs[sel]
		th.bufs = append(th.bufs[:sel], th.bufs[sel+1:]...)
		a.Free(l.p)
		if len(th.bufs) > 0 {
			th.freed = true
		}
	}
	return nil
}

func runCase(c Case) vlib.Result {
	a := newAlloc(c)
	res := vlib.Result{Classes: []string{"alloc=" + c.Alloc}}
	if len(c.Threads) == 1 {
		res.Classes = append(res.Classes, "sequential")
		th := &thread{id: 1}
		for step, op := range c.Threads[0] {
			if err := th.apply(a, step, op); err != nil {
				res.Err = err
				return res
			}
			if err := th.verify(step, op); err != nil {
				res.Err = err
				return res
			}
			if err := disjoint([]*thread{th}); err != nil {
				res.Err = fmt.Errorf("step %d %+v: %v", step, op, err)
				return res
			}
		}
		res.NonTrivial = th.nontriv
		for _, l := range th.bufs {
			a.Free(l.p)
		}
		return res
	}
	res.Classes = append(res.Classes, "concurrent")
	ths := make([]*thread, len(c.Threads))
	errs := make([]error, len(c.Threads))
	var wg sync.WaitGroup
	start := make(chan struct{})
	for i := range c.Threads {
		ths[i] = &thread{id: i + 1}
		wg.Add(1)
		go func(i int) {
			defer wg.Done()
			<-start
			th := ths[i]
			for step, op := range c.Threads[i] {
				if err := th.apply(a, step, op); err != nil {
					errs[i] = err
					return
				}
				if err := th.verify(step, op); err != nil {
					errs[i] = err
					return
				}
			}
		}(i)
	}
	close(start)
	wg.Wait()
	for _, e := range errs {
		if e != nil {
			res.Err = e
			return res
		}
	}
	if err := disjoint(ths); err != nil {
		res.Err = err
		return res
	}
	for _, th := range ths {
		if th.nontriv {
			res.NonTrivial = true
		}
		for _, l := range th.bufs {
			a.Free(l.p)
		}
	}
	return res
}

func TestCheck(t *testing.T) {
	r := vlib.NewRunner(t, "C20")
	vlib.RunCheck(r, vlib.Check[Case]{Name: "seq", N: r.Pick(24000, 800000), Gen: genCase(false), Run: runCase})
	vlib.RunCheck(r, vlib.Check[Case]{Name: "conc", N: r.Pick(4000, 100000), Gen: genCase(true), Run: runCase})
	r.Finish()
}
