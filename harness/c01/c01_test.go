package c01

import (
	"fmt"
	"io"
	"net"
	"os"
	"sync"
	"sync/atomic"
	"syscall"
	"testing"
	"time"

	"verifharness/vlib"

	"github.com/lesismal/nbio"
	"pgregory.net/rapid"
)

type Op struct {
	K     string `json:"k"` // write, writev, sendfile, pause (Sizes[0] microseconds), release (shim tier only)
	Sizes []int  `json:"sizes"`
	Off   int    `json:"off,omitempty"` // sendfile: offset of the range inside the temp file
}

type PeerStep struct {
	SleepMs int `json:"sleep_ms,omitempty"`
	Read    int `json:"read,omitempty"`
}

type Case struct {
	Transport string     `json:"transport"`
	Mode      string     `json:"mode"`
	SndBuf    int        `json:"sndbuf"`
	RcvBuf    int        `json:"peer_rcvbuf"`
	NPoller   int        `json:"npoller"`
	Writers   [][]Op     `json:"writers"`
	Peer      []PeerStep `json:"peer"`
}

func tag(w int, pos int64) byte {
	return byte(w<<6) | byte((pos*37+(pos>>6)*11+(pos>>12)*5+(pos>>18))&0x3f)
}

func fill(w int, pos int64, n int) []byte {
	b := make([]byte, n)
	for i := range b {
		b[i] = tag(w, pos+int64(i))
	}
	return b
}

type span struct{ start, end int64 }

type writerState struct {
	pos   int64
	calls []span
	err   error
}

const window = 4 * time.Second

func sockBuf(c interface {
	SyscallConn() (syscall.RawConn, error)
}, opt int) int {
	rc, err := c.SyscallConn()
	if err != nil {
		return 0
	}
	v := 0
	_ = rc.Control(func(fd uintptr) { v, _ = syscall.GetsockoptInt(int(fd), syscall.SOL_SOCKET, opt) })
	return v
}

func runCase(c Case) vlib.Result {
	res := vlib.Result{Classes: []string{"transport=" + c.Transport, "mode=" + c.Mode}}
	conf := nbio.Config{NPoller: c.NPoller}
	vlib.ApplyMode(&conf, c.Mode)
	g := nbio.NewEngine(conf)
	var closeErr atomic.Value
	closed := make(chan struct{})
	var closeOnce sync.Once
	g.OnClose(func(_ *nbio.Conn, err error) {
		if err != nil {
			closeErr.Store(err)
		}
		closeOnce.Do(func() { close(closed) })
	})
	if err := g.Start(); err != nil {
		return vlib.Fail("harness: engine start: %v", err)
	}
	stopped := false
	defer func() {
		if !stopped {
			vlib.StopEngine(g.Stop, 10*time.Second)
		}
	}()
	a, peer, err := vlib.StreamPair(c.Transport, c.SndBuf, c.RcvBuf)
	if err != nil {
		return vlib.Fail("harness: socket pair: %v", err)
	}
	defer peer.Close()
	kernelCap := 0
	if sc, ok := a.(interface {
		SyscallConn() (syscall.RawConn, error)
	}); ok {
		kernelCap += sockBuf(sc, syscall.SO_SNDBUF)
	}
	if sc, ok := peer.(interface {
		SyscallConn() (syscall.RawConn, error)
	}); ok {
		kernelCap += sockBuf(sc, syscall.SO_RCVBUF)
	}
	nbc, err := g.AddConn(a)
	if err != nil {
		return vlib.Fail("harness: AddConn: %v", err)
	}

	var accepted, received int64
	var recvMu sync.Mutex
	var recvLog []byte
	writersDone := make(chan struct{})
	peerDone := make(chan struct{})
	var lastProgress atomic.Int64
	lastProgress.Store(time.Now().UnixNano())

	// peer
	go func() {
		defer close(peerDone)
		buf := make([]byte, 256*1024)
		readSome := func(max int, wait time.Duration) (int, error) {
			if max > len(buf) {
				max = len(buf)
			}
			_ = peer.SetReadDeadline(time.Now().Add(wait))
			n, err := peer.Read(buf[:max])
			if n > 0 {
				recvMu.Lock()
				recvLog = append(recvLog, buf[:n]...)
				recvMu.Unlock()
				atomic.AddInt64(&received, int64(n))
				lastProgress.Store(time.Now().UnixNano())
			}
			return n, err
		}
		for _, st := range c.Peer {
			if st.SleepMs > 0 {
				time.Sleep(time.Duration(st.SleepMs) * time.Millisecond)
			}
			left := st.Read
			for left > 0 {
				n, err := readSome(left, 300*time.Millisecond)
				left -= n
				if err != nil {
					if ne, ok := err.(net.Error); ok && ne.Timeout() {
						break // nothing (more) to read right now; go on with the script
					}
					return
				}
			}
		}
		// drain
		for {
			select {
			case <-writersDone:
				if atomic.LoadInt64(&received) >= atomic.LoadInt64(&accepted) {
					// give duplicates a chance to show up
					readSome(len(buf), 30*time.Millisecond)
					return
				}
			default:
			}
			_, err := readSome(len(buf), 100*time.Millisecond)
			if err != nil {
				if ne, ok := err.(net.Error); ok && ne.Timeout() {
					if time.Since(time.Unix(0, lastProgress.Load())) > window {
						select {
						case <-writersDone:
							return
						default:
							// writers still running (blocked?) - keep waiting up to twice the window
							if time.Since(time.Unix(0, lastProgress.Load())) > 2*window {
								return
							}
						}
					}
					continue
				}
				return
			}
		}
	}()

	// writers
	states := make([]*writerState, len(c.Writers))
	var retErr atomic.Value
	var backlogOps int64
	var wg sync.WaitGroup
	tmpdir, _ := os.MkdirTemp("", "c01f")
	defer os.RemoveAll(tmpdir)
	for wi := range c.Writers {
		states[wi] = &writerState{}
		wg.Add(1)
		go func(wi int) {
			defer wg.Done()
			st := states[wi]
			for oi, op := range c.Writers[wi] {
				if op.K == "pause" {
					time.Sleep(time.Duration(op.Sizes[0]) * time.Microsecond)
					continue
				}
				if atomic.LoadInt64(&accepted)-atomic.LoadInt64(&received) > int64(kernelCap) {
					atomic.AddInt64(&backlogOps, 1)
				}
				total := 0
				for _, s := range op.Sizes {
					total += s
				}
				var n int64
				var err error
				switch op.K {
				case "write":
					var nn int
					nn, err = nbc.Write(fill(wi, st.pos, total))
					n = int64(nn)
				case "writev":
					var bufs [][]byte
					p := st.pos
					for _, s := range op.Sizes {
						bufs = append(bufs, fill(wi, p, s))
						p += int64(s)
					}
					var nn int
					nn, err = nbc.Writev(bufs)
					n = int64(nn)
				case "sendfile":
					f, ferr := os.CreateTemp(tmpdir, "sf")
					if ferr != nil {
						retErr.Store(fmt.Sprintf("harness: temp file: %v", ferr))
						return
					}
					pre := make([]byte, op.Off)
					for i := range pre {
						pre[i] = 0xFF // never to be sent (tag 3 with all bits: writer id 3 is unused)
					}
					_, _ = f.Write(pre)
					_, _ = f.Write(fill(wi, st.pos, total))
					_, _ = f.Write([]byte{0xFF, 0xFF, 0xFF, 0xFF})
					_, _ = f.Seek(int64(op.Off), io.SeekStart)
					n, err = nbc.Sendfile(f, int64(total))
					_ = f.Close()
				}
				if err == nil && n != int64(total) {
					retErr.Store(fmt.Sprintf("writer %d op %d: %s of %d bytes (sizes %v) returned (%d, nil): a call without error must report its whole input", wi, oi, op.K, total, op.Sizes, n))
				}
				if n < 0 {
					n = 0
				}
				if n > int64(total) {
					n = int64(total)
				}
				st.calls = append(st.calls, span{st.pos, st.pos + n})
				st.pos += n
				atomic.AddInt64(&accepted, n)
				if err != nil {
					st.err = fmt.Errorf("writer %d op %d: %s of %d bytes returned (%d, %v)", wi, oi, op.K, total, n, err)
					return
				}
			}
		}(wi)
	}
	wdone := make(chan struct{})
	go func() { wg.Wait(); close(wdone) }()
	select {
	case <-wdone:
	case <-time.After(30 * time.Second):
		res.Err = fmt.Errorf("a Write/Writev/Sendfile call did not return within 30 s")
		return res
	}
	close(writersDone)
	select {
	case <-peerDone:
	case <-time.After(4 * window):
	}
	_ = peer.SetReadDeadline(time.Now())
	<-peerDone

	if v := retErr.Load(); v != nil {
		res.Err = fmt.Errorf("%s", v.(string))
		return res
	}
	for _, st := range states {
		if st.err != nil {
			res.Err = fmt.Errorf("%v (peer alive and reading, no write-buffer limit; OnClose error: %v)", st.err, closeErr.Load())
			return res
		}
	}
	// demultiplex and verify
	recvMu.Lock()
	log := recvLog
	recvMu.Unlock()
	pos := make([]int64, 4)
	boundary := make([]map[int64]bool, len(states))
	for i, st := range states {
		boundary[i] = map[int64]bool{0: true}
		for _, s := range st.calls {
			boundary[i][s.end] = true
		}
	}
	cur := -1
	for i, b := range log {
		w := int(b >> 6)
		if w >= len(states) {
			res.Err = fmt.Errorf("stream offset %d: byte %#x belongs to no writer (altered byte or bytes outside the requested file range)", i, b)
			return res
		}
		if w != cur {
			if cur >= 0 && !boundary[cur][pos[cur]] {
				res.Err = fmt.Errorf("stream offset %d: writer %d's call was interrupted at its byte %d by bytes of writer %d (interleaving inside one call)", i, cur, pos[cur], w)
				return res
			}
			cur = w
		}
		if want := tag(w, pos[w]); b != want {
			res.Err = fmt.Errorf("stream offset %d: writer %d byte %d is %#x, want %#x (lost, duplicated, reordered or altered data); accepted %d received %d", i, w, pos[w], b, want, states[w].pos, len(log))
			return res
		}
		pos[w]++
		if pos[w] > states[w].pos {
			res.Err = fmt.Errorf("stream offset %d: writer %d delivered more bytes (%d) than its calls reported as accepted (%d)", i, w, pos[w], states[w].pos)
			return res
		}
	}
	for w, st := range states {
		if pos[w] != st.pos {
			isClosed, cerr := nbc.IsClosed()
			res.Err = fmt.Errorf("writer %d: %d bytes were reported as accepted but only %d reached the peer, which kept reading for %v (conn closed=%v err=%v, OnClose err=%v)", w, st.pos, pos[w], window, isClosed, cerr, closeErr.Load())
			return res
		}
	}
	nops := 0
	for _, w := range c.Writers {
		for _, op := range w {
			res.Classes = append(res.Classes, "op="+op.K)
			nops++
		}
	}
	if len(c.Writers) > 1 {
		res.Classes = append(res.Classes, "concurrent-writers")
	}
	res.NonTrivial = backlogOps > 0
	if res.NonTrivial {
		res.Classes = append(res.Classes, "backlog-formed")
	}
	_ = nbc.Close()
	stopped = true
	if !vlib.StopEngine(g.Stop, 10*time.Second) {
		res.Classes = append(res.Classes, "stop-hung(C18 subject)")
	}
	return res
}

func genSize(t *rapid.T, sndbuf int) int {
	switch rapid.IntRange(0, 11).Draw(t, "szcls") {
	case 0:
		return 0
	case 1:
		return 1
	case 2:
		return 4096 + rapid.IntRange(-1, 1).Draw(t, "dpage")
	case 3, 4:
		sb := sndbuf
		if sb <= 0 {
			sb = 65536
		}
		return sb + rapid.IntRange(-2, 2).Draw(t, "dsnd")
	case 5, 6:
		return 65536 + rapid.IntRange(-2, 2).Draw(t, "d64")
	case 7:
		return rapid.IntRange(200000, 1500000).Draw(t, "big")
	case 8:
		return rapid.IntRange(1000, 40000).Draw(t, "mid")
	default:
		return rapid.IntRange(1, 600).Draw(t, "small")
	}
}

func gen(t *rapid.T) Case {
	c := Case{Transport: rapid.SampledFrom([]string{"tcp", "tcp", "unix"}).Draw(t, "transport"), Mode: rapid.SampledFrom(vlib.Modes).Draw(t, "mode")}
	c.SndBuf = rapid.SampledFrom([]int{4096, 8192, 16384, 65536, 0}).Draw(t, "sndbuf")
	c.RcvBuf = rapid.SampledFrom([]int{4096, 16384, 65536, 0}).Draw(t, "rcvbuf")
	c.NPoller = rapid.IntRange(1, 2).Draw(t, "npoller")
	nw := rapid.SampledFrom([]int{1, 1, 2, 3}).Draw(t, "nwriters")
	for w := 0; w < nw; w++ {
		var ops []Op
		n := rapid.IntRange(1, 8).Draw(t, "nops")
		for i := 0; i < n; i++ {
			k := rapid.SampledFrom([]string{"write", "write", "write", "writev", "writev", "sendfile", "pause"}).Draw(t, "opkind")
			op := Op{K: k}
			switch k {
			case "pause":
				op.Sizes = []int{rapid.SampledFrom([]int{100, 1000, 5000}).Draw(t, "pauseus")}
			case "writev":
				nb := rapid.IntRange(1, 6).Draw(t, "nbufs")
				for j := 0; j < nb; j++ {
					op.Sizes = append(op.Sizes, genSize(t, c.SndBuf))
				}
			case "sendfile":
				s := genSize(t, c.SndBuf)
				if s == 0 {
					s = 1 // Sendfile(f, 0) means "the rest of the file"
				}
				op.Sizes = []int{s}
				op.Off = rapid.SampledFrom([]int{0, 1, 4096, 5000}).Draw(t, "fileoff")
			default:
				op.Sizes = []int{genSize(t, c.SndBuf)}
			}
			ops = append(ops, op)
		}
		c.Writers = append(c.Writers, ops)
	}
	np := rapid.IntRange(0, 5).Draw(t, "npeer")
	for i := 0; i < np; i++ {
		st := PeerStep{}
		if rapid.Bool().Draw(t, "peersleep") {
			st.SleepMs = rapid.IntRange(1, 40).Draw(t, "sleepms")
		}
		if rapid.Bool().Draw(t, "peerread") {
			st.Read = rapid.SampledFrom([]int{1, 100, 4096, 10000, 70000, 300000}).Draw(t, "readn")
		}
		c.Peer = append(c.Peer, st)
	}
	return c
}

func TestCheck(t *testing.T) {
	r := vlib.NewRunner(t, "C01")
	vlib.RunCheck(r, vlib.Check[Case]{Name: "stream", N: r.Pick(1600, 30000), Gen: gen, Run: runCase, Confirm: true, RecordCurrent: true})
	runShimTier(r)
	r.Finish()
}
