//go:build verifshim

package c01

import (
	"fmt"
	"io"
	"net"
	"os"
	"sync"
	"sync/atomic"
	"time"

	"verifharness/vlib"

	"github.com/lesismal/nbio"
	"pgregory.net/rapid"
)

// Syscall-shim tier: the same stream oracle, but what the "kernel" does with each write/writev/sendfile
// of the connection under test is scripted: pass, truncate to k bytes, EINTR, EAGAIN. Truncation and
// EAGAIN are only injected in LT and ET+ONESHOT (where the code re-arms with EPOLL_CTL_MOD, so an
// injected refusal on a writable socket is indistinguishable from a real one); plain ET gets EINTR only.

type Decision struct {
	Kind int  `json:"kind"` // 0 pass, 1 truncate, 2 EINTR, 3 EAGAIN
	K    int  `json:"k,omitempty"`
	Rel  bool `json:"rel,omitempty"` // k counts from the end (n-k)
	// Hold (with a short write or EAGAIN): the "kernel" is full from now on - every further write call
	// of the connection gets EAGAIN - until a writer's program reaches a "release" op (or the programs end)
	Hold bool `json:"hold,omitempty"`
}

type ShimCase struct {
	Transport string     `json:"transport"`
	Mode      string     `json:"mode"`
	Writers   [][]Op     `json:"writers"`
	Script    []Decision `json:"script"`
}

func runShim(c ShimCase) vlib.Result {
	res := vlib.Result{Classes: []string{"shim", "mode=" + c.Mode, "transport=" + c.Transport}}
	conf := nbio.Config{NPoller: 1}
	vlib.ApplyMode(&conf, c.Mode)
	g := nbio.NewEngine(conf)
	var closeErr atomic.Value
	g.OnClose(func(_ *nbio.Conn, err error) {
		if err != nil {
			closeErr.Store(err)
		}
	})
	if err := g.Start(); err != nil {
		return vlib.Fail("harness: engine start: %v", err)
	}
	defer vlib.StopEngine(g.Stop, 10*time.Second)
	a, peer, err := vlib.StreamPair(c.Transport, 0, 0)
	if err != nil {
		return vlib.Fail("harness: pair: %v", err)
	}
	defer peer.Close()
	nbc, err := g.AddConn(a)
	if err != nil {
		return vlib.Fail("harness: AddConn: %v", err)
	}
	fd := -1
	if rc, e := nbc.SyscallConn(); e == nil {
		_ = rc.Control(func(f uintptr) { fd = int(f) })
	}
	var idx int64
	var injected [4]int64
	var hold, holds int32
	var holdMu sync.Mutex
	finished := false
	nbio.VerifSetHook(func(op string, f int, n int) (int, int) {
		if f != fd || op == "read" || len(c.Script) == 0 {
			return nbio.VerifPass, 0
		}
		if atomic.LoadInt32(&hold) == 1 {
			return nbio.VerifEAGAIN, 0
		}
		d := c.Script[int(atomic.AddInt64(&idx, 1)-1)%len(c.Script)]
		if d.Hold && c.Mode != vlib.ModeET && (d.Kind == nbio.VerifEAGAIN || d.Kind == nbio.VerifTruncate) {
			defer func() {
				holdMu.Lock()
				if !finished { // once the programs have ended nobody would release it any more
					atomic.StoreInt32(&hold, 1)
					atomic.AddInt32(&holds, 1)
				}
				holdMu.Unlock()
			}()
		}
		k := d.K
		if d.Rel {
			k = n - d.K
		}
		if d.Kind == nbio.VerifTruncate && (k < 1 || k >= n) {
			return nbio.VerifPass, 0
		}
		atomic.AddInt64(&injected[d.Kind], 1)
		return d.Kind, k
	})
	defer nbio.VerifSetHook(nil)

	var recvMu sync.Mutex
	var recvLog []byte
	var received int64
	stopRead := make(chan struct{})
	readDone := make(chan struct{})
	go func() {
		defer close(readDone)
		buf := make([]byte, 1<<18)
		for {
			select {
			case <-stopRead:
				return
			default:
			}
			_ = peer.SetReadDeadline(time.Now().Add(50 * time.Millisecond))
			n, err := peer.Read(buf)
			if n > 0 {
				recvMu.Lock()
				recvLog = append(recvLog, buf[:n]...)
				recvMu.Unlock()
				atomic.AddInt64(&received, int64(n))
			}
			if err != nil {
				if ne, ok := err.(net.Error); ok && ne.Timeout() {
					continue
				}
				return
			}
		}
	}()
	states := make([]*writerState, len(c.Writers))
	var retErr atomic.Value
	var wg sync.WaitGroup
	tmpdir, _ := os.MkdirTemp("", "c01s")
	defer os.RemoveAll(tmpdir)
	var accepted int64
	for wi := range c.Writers {
		states[wi] = &writerState{}
		wg.Add(1)
		go func(wi int) {
			defer wg.Done()
			st := states[wi]
			for oi, op := range c.Writers[wi] {
				switch op.K {
				case "pause":
					time.Sleep(time.Duration(op.Sizes[0]) * time.Microsecond)
					continue
				case "release":
					atomic.StoreInt32(&hold, 0)
					continue
				}
				total := 0
				for _, s := range op.Sizes {
					total += s
				}
				var n int64
				var err error
				switch op.K {
				case "write":
					var nn int
					nn, err = nbc.Write(fill(wi, st.pos, total))
					n = int64(nn)
				case "writev":
					var bufs [][]byte
					p := st.pos
					for _, s := range op.Sizes {
						bufs = append(bufs, fill(wi, p, s))
						p += int64(s)
					}
					var nn int
					nn, err = nbc.Writev(bufs)
					n = int64(nn)
				case "sendfile":
					f, ferr := os.CreateTemp(tmpdir, "sf")
					if ferr != nil {
						retErr.Store(fmt.Sprintf("harness: temp file: %v", ferr))
						return
					}
					_, _ = f.Write(make([]byte, op.Off))
					_, _ = f.Write(fill(wi, st.pos, total))
					_, _ = f.Write([]byte{0xFF, 0xFF})
					_, _ = f.Seek(int64(op.Off), io.SeekStart)
					n, err = nbc.Sendfile(f, int64(total))
					_ = f.Close()
				}
				if err != nil {
					retErr.Store(fmt.Sprintf("writer %d op %d: %s of %d bytes returned (%d, %v) under the fault script (peer alive; only short writes, EINTR and EAGAIN were injected)", wi, oi, op.K, total, n, err))
					return
				}
				if n != int64(total) {
					retErr.Store(fmt.Sprintf("writer %d op %d: %s of %d bytes (sizes %v) returned (%d, nil)", wi, oi, op.K, total, op.Sizes, n))
					return
				}
				st.calls = append(st.calls, span{st.pos, st.pos + n})
				st.pos += n
				atomic.AddInt64(&accepted, n)
			}
		}(wi)
	}
	wdone := make(chan struct{})
	go func() {
		wg.Wait()
		holdMu.Lock()
		finished = true
		atomic.StoreInt32(&hold, 0)
		holdMu.Unlock()
		close(wdone)
	}()
	select {
	case <-wdone:
	case <-time.After(30 * time.Second):
		res.Err = fmt.Errorf("a Write/Writev/Sendfile call did not return within 30 s under the fault script")
		return res
	}
	if v := retErr.Load(); v != nil {
		close(stopRead)
		<-readDone
		res.Err = fmt.Errorf("%s", v.(string))
		return res
	}
	ok := vlib.WaitUntil(window, func() bool { return atomic.LoadInt64(&received) >= atomic.LoadInt64(&accepted) })
	time.Sleep(5 * time.Millisecond)
	close(stopRead)
	<-readDone
	left, queued, files, wAdded, closed := nbio.VerifBacklog(nbc)
	if !ok {
		res.Err = fmt.Errorf("%d bytes accepted, %d reached the peer within %v although the peer reads and the script lets writes through (queue: left=%d queued=%d files=%d writeArmed=%v closed=%v, OnClose=%v; injected trunc=%d EINTR=%d EAGAIN=%d)",
			accepted, received, window, left, queued, files, wAdded, closed, closeErr.Load(), injected[1], injected[2], injected[3])
		return res
	}
	if left != 0 || queued != 0 || files != 0 {
		res.Err = fmt.Errorf("everything was delivered but the connection still accounts a backlog: left=%d queued bytes=%d queued files=%d", left, queued, files)
		return res
	}
	recvMu.Lock()
	log := recvLog
	recvMu.Unlock()
	pos := make([]int64, 4)
	boundary := make([]map[int64]bool, len(states))
	for i, st := range states {
		boundary[i] = map[int64]bool{0: true}
		for _, s := range st.calls {
			boundary[i][s.end] = true
		}
	}
	cur := -1
	for i, b := range log {
		w := int(b >> 6)
		if w >= len(states) {
			res.Err = fmt.Errorf("stream offset %d: byte %#x belongs to no writer", i, b)
			return res
		}
		if w != cur {
			if cur >= 0 && !boundary[cur][pos[cur]] {
				res.Err = fmt.Errorf("stream offset %d: writer %d's call was interrupted at its byte %d by bytes of writer %d", i, cur, pos[cur], w)
				return res
			}
			cur = w
		}
		if want := tag(w, pos[w]); b != want {
			res.Err = fmt.Errorf("stream offset %d: writer %d byte %d is %#x, want %#x (lost, duplicated, reordered or altered under the fault script; injected trunc=%d EINTR=%d EAGAIN=%d)", i, w, pos[w], b, want, injected[1], injected[2], injected[3])
			return res
		}
		pos[w]++
	}
	for w, st := range states {
		if pos[w] != st.pos {
			res.Err = fmt.Errorf("writer %d: %d bytes accepted, %d delivered", w, st.pos, pos[w])
			return res
		}
	}
	if atomic.LoadInt32(&holds) > 0 {
		res.Classes = append(res.Classes, "kernel-held-full")
	}
	res.NonTrivial = injected[1]+injected[2]+injected[3] > 0
	if injected[1] > 0 {
		res.Classes = append(res.Classes, "injected=truncate")
	}
	if injected[2] > 0 {
		res.Classes = append(res.Classes, "injected=EINTR")
	}
	if injected[3] > 0 {
		res.Classes = append(res.Classes, "injected=EAGAIN")
	}
	return res
}

func genShim(t *rapid.T) ShimCase {
	c := ShimCase{Transport: rapid.SampledFrom([]string{"tcp", "unix"}).Draw(t, "transport"), Mode: rapid.SampledFrom(vlib.Modes).Draw(t, "mode")}
	nw := rapid.SampledFrom([]int{1, 1, 2}).Draw(t, "nwriters")
	for w := 0; w < nw; w++ {
		var ops []Op
		n := rapid.IntRange(1, 8).Draw(t, "nops")
		small := rapid.Bool().Draw(t, "smallprofile") // writes that coalesce into one queue entry (<= 64 KiB together)
		for i := 0; i < n; i++ {
			k := rapid.SampledFrom([]string{"write", "write", "writev", "writev", "sendfile", "pause", "release"}).Draw(t, "opkind")
			size := func() int {
				if small {
					return rapid.SampledFrom([]int{0, 1, 2, 100, 1000, 4096, 12000, 30000, 45000}).Draw(t, "size")
				}
				return rapid.SampledFrom([]int{0, 1, 2, 100, 4096, 65535, 65536, 65537, 70000, 200000}).Draw(t, "size")
			}
			op := Op{K: k}
			switch k {
			case "pause":
				op.Sizes = []int{rapid.SampledFrom([]int{50, 200, 1000}).Draw(t, "pauseus")}
			case "release":
				op.Sizes = []int{0}
			case "writev":
				nb := rapid.IntRange(1, 5).Draw(t, "nbufs")
				for j := 0; j < nb; j++ {
					op.Sizes = append(op.Sizes, size())
				}
			case "sendfile":
				s := size()
				if s == 0 {
					s = 1
				}
				op.Sizes = []int{s}
				op.Off = rapid.SampledFrom([]int{0, 1, 4096}).Draw(t, "fileoff")
			default:
				op.Sizes = []int{size()}
			}
			ops = append(ops, op)
		}
		c.Writers = append(c.Writers, ops)
	}
	ns := rapid.IntRange(1, 12).Draw(t, "nscript")
	for i := 0; i < ns; i++ {
		var d Decision
		kinds := []int{0, 0, 1, 1, 1, 2, 3}
		if c.Mode == vlib.ModeET {
			kinds = []int{0, 0, 2} // plain ET: EINTR only (see the faithfulness rule)
		}
		d.Kind = rapid.SampledFrom(kinds).Draw(t, "kind")
		if d.Kind == 1 {
			d.K = rapid.SampledFrom([]int{1, 2, 3, 100, 4095, 4096, 65535, 65536}).Draw(t, "k")
			d.Rel = rapid.Bool().Draw(t, "rel")
		}
		if (d.Kind == 1 || d.Kind == 3) && c.Mode != vlib.ModeET {
			d.Hold = rapid.IntRange(0, 2).Draw(t, "hold") == 0
		}
		c.Script = append(c.Script, d)
	}
	c.Script = append(c.Script, Decision{Kind: 0}) // the script always lets something through eventually
	return c
}

func runShimTier(r *vlib.Runner) {
	vlib.RunCheck(r, vlib.Check[ShimCase]{Name: "shim", N: r.Pick(3000, 100000), Gen: genShim, Run: runShim, Confirm: true, RecordCurrent: true})
}
